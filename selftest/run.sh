#!/bin/bash
# selftest/run.sh [pattern]: every must_fail patch must make its property's check exit 1,
# every must_pass patch must leave all named checks at exit 0. Patch name = <PROP>-<what>.patch
cd /verif
export VERIF_EVIDENCE_DIR=/var/tmp/verif-scratch/evidence-mut
if [ -n "$(git -C /repo status --short)" ]; then echo "REFUSING: /repo dirty"; exit 2; fi
fail=0
for f in selftest/must_fail/*${1:-}*.patch; do
  [ -e "$f" ] || continue
  prop=$(basename $f | cut -d- -f1)
  git -C /repo apply /verif/$f || { echo "NOAPPLY $f"; fail=1; continue; }
  out=$(./check $prop --tier quick 2>&1); rc=$?
  git -C /repo checkout -- .
  if [ $rc -eq 1 ]; then echo "ok   must_fail $(basename $f): $(echo "$out" | grep -c VIOLATION) violation(s): $(echo "$out" | grep VIOLATION | head -1 | sed 's/.*replay=.verif.replays.[A-Z0-9]*.//' | cut -c1-90)"
  else echo "MISS must_fail $(basename $f) rc=$rc: $(echo "$out" | tail -1)"; fail=1; fi
done
for f in selftest/must_pass/*${1:-}*.patch; do
  [ -e "$f" ] || continue
  props=$(basename $f .patch | cut -d- -f1 | tr '+' ' ')
  git -C /repo apply /verif/$f || { echo "NOAPPLY $f"; fail=1; continue; }
  for prop in $props; do
    out=$(./check $prop --tier quick 2>&1); rc=$?
    if [ $rc -eq 0 ]; then echo "ok   must_pass $(basename $f) [$prop]"; else echo "FALSE-ALARM must_pass $(basename $f) [$prop] rc=$rc: $(echo "$out" | grep -E 'VIOLATION|undecided|error' | head -2)"; fail=1; fi
  done
  git -C /repo checkout -- .
done
exit $fail
