#!/bin/bash
# tools/seedrun.sh [pattern]: run every stored seeded change against the check of its own property
# and record the outcome in seeded/<name>/meta.json (detected_by) and seeded/RESULTS.txt
cd /verif
export VERIF_EVIDENCE_DIR=/var/tmp/verif-scratch/evidence-mut
if [ -n "$(git -C /repo status --short)" ]; then echo "REFUSING: /repo dirty"; exit 2; fi
for d in seeded/*${1:-}*/; do
  n=$(basename $d); prop=${n%%-*}
  grep -q "\"property_id\": \"$prop\"" MANIFEST.json || { echo "$n: property $prop not claimed yet"; continue; }
  git -C /repo apply /verif/$d/patch.diff || { echo "$n: PATCH DOES NOT APPLY"; continue; }
  out=$(./check $prop --tier quick 2>&1); rc=$?
  git -C /repo checkout -- .
  viol=$(echo "$out" | grep VIOLATION | sed 's/.*replay=.verif.replays.[A-Z0-9]*.//; s/\.txt.*//' | head -3 | tr '\n' ' ')
  if [ $rc -eq 1 ]; then res="DETECTED by check $prop: $viol"; else res="MISSED by check $prop (rc=$rc)"; fi
  echo "$n: $res"
  python3 - "$d/meta.json" "$res" <<'PY'
import json,sys
m=json.load(open(sys.argv[1])); m['detected_by']=sys.argv[2]; json.dump(m,open(sys.argv[1],'w'),indent=1)
PY
done | tee seeded/RESULTS.txt
