#!/bin/bash
# verify a seeded change: tools/verify_seed.sh <srcdir with patch.diff, demo, meta.json>
# 1. demo fails with the patch, 2. suite passes with the patch, 3. demo passes without it.
set -u
src=$1
export GOFLAGS=-mod=mod GOPROXY=off
wt=/tmp/seedverify-$$
git -C /repo worktree add -q --detach $wt HEAD || exit 2
trap 'git -C /repo worktree remove --force '$wt' >/dev/null 2>&1' EXIT
loc=$(python3 -c "import json;print(json.load(open('$src/meta.json'))['demo_location'])")
demo=$(ls $src/*_test.go 2>/dev/null | head -1)
cmd=$(python3 -c "import json;print(json.load(open('$src/meta.json'))['demo_cmd'])")
cd $wt
git apply $src/patch.diff || { echo "PATCH-DOES-NOT-APPLY"; exit 3; }
go build ./... || { echo "BUILD-FAILS"; exit 3; }
cp $demo $wt/$loc/
echo "--- demo with patch (must fail): $cmd"
( cd $wt && eval "$cmd" ) > /tmp/seedverify-demo1.$$ 2>&1; r1=$?
tail -3 /tmp/seedverify-demo1.$$
rm -f $wt/$loc/$(basename $demo)
echo "--- suite with patch (must pass)"
go test -vet=off -count=1 ./... > /tmp/seedverify-suite.$$ 2>&1; r2=$?
grep -v "^ok\|no test files" /tmp/seedverify-suite.$$ | tail -5
git checkout -q -- . 
cp $demo $wt/$loc/
echo "--- demo without patch (must pass)"
( cd $wt && eval "$cmd" ) > /tmp/seedverify-demo2.$$ 2>&1; r3=$?
tail -2 /tmp/seedverify-demo2.$$
rm -f /tmp/seedverify-*.$$
echo "RESULT demo_with=$r1 suite_with=$r2 demo_without=$r3"
[ $r1 -ne 0 ] && [ $r2 -eq 0 ] && [ $r3 -eq 0 ] && echo "SEED-VERIFIED" 
