#!/bin/bash
# tools/runall.sh [--record]: run every claimed check on the current (unchanged) tree, regenerate evidence
cd /verif
unset VERIF_EVIDENCE_DIR
rc=0
for p in $(python3 -c "import json;print(' '.join(c['property_id'] for c in json.load(open('/verif/MANIFEST.json'))['checks']))"); do
  ./check $p --tier quick $1 2>&1 | tail -1
  [ ${PIPESTATUS[0]} -eq 0 ] || rc=1
  python3 - $p <<'PY' || rc=1
import json,sys
e=json.load(open('/verif/evidence/%s.json'%sys.argv[1]))
c=e['coverage']
assert c['obligations']==c['discharged'] and e['violations']==0, (sys.argv[1], c['obligations'], c['discharged'])
PY
done
exit $rc
