#!/bin/bash
# tools/runall.sh [--record]: run every claimed check on the current (unchanged) tree, regenerate evidence
cd /verif
unset VERIF_EVIDENCE_DIR
rc=0
for p in $(python3 -c "import json;print(' '.join(c['property_id'] for c in json.load(open('/verif/MANIFEST.json'))['checks']))"); do
  out=$(./check $p --tier quick $1 2>&1); ec=$?
  echo "$out" | tail -1
  if [ $ec -ne 0 ]; then rc=1; echo "  !! $p exit=$ec"; echo "$out" | grep -E "tool error|VIOLATION|undecided|vacuity|load" | head -5 | sed 's/^/  !! /'; fi
  python3 - $p <<'PY' || rc=1
import json,sys
e=json.load(open('/verif/evidence/%s.json'%sys.argv[1]))
c=e['coverage']
assert c['obligations']==c['discharged'] and e['violations']==0 and c['tool_errors']==0, (sys.argv[1], c['obligations'], c['discharged'], c['tool_errors'])
PY
done
[ $rc -eq 0 ] && echo "ALL GREEN" || echo "NOT GREEN"
exit $rc
