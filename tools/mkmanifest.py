#!/usr/bin/env python3
"""Regenerates /verif/MANIFEST.json from the table below."""
import json, subprocess
ids=[json.loads(l)['id'] for l in open('/verif/properties.jsonl')]
T="contract-based deductive verification: weakest-precondition style VCs generated from go/ssa of /repo (govc), discharged by z3/cvc5"
claimed = {
 "C08": dict(
   text="Zero-annotation safety sweep plus supporting functional contracts: for 65 functions reachable from peer-supplied bytes (daemon and client side) every index, slice, make, integer division, non-comma-ok type assertion, explicit panic and process-exit site is turned into a verification condition over unconstrained peer input (every value read from the connection is arbitrary in its type, every read may fail) and discharged by an SMT solver; the facts that cross function boundaries (validated checksum header ranges, option-table typing, multiplex buffer size) are contracts proved on the real code. A violated obligation comes with the solver's model replayed against the real function where a replay template exists.",
   note="Trusted: govc itself, go/ssa, SMT solvers; externals.spec entries used (listed per run in the evidence); nil-pointer dereference and nil-map writes are not swept; the sender's delta-search functions (hashSearch, matched, simpleSendToken, ptr, sendFile, mapFile) are not yet under the sweep (listed as deferred); option-table typing rests on a trusted contract backed by an exhaustive table enumeration; os.Exit paths of the shared option parser are recorded as open known findings.",
   design="4.8"),
 "C03": dict(
   text="Typestate proof on the real receiveData: with ghost accumulators for 'bytes written to writer w' (updated only by the Write/MultiWriter/binary.Write contracts) the loop invariant 'the hash has seen seed ++ exactly what the temp file has seen' is proved inductive, and at the one call of CloseAtomicallyReplace the path condition is proved to imply (a) localSum = MD4(seed ++ bytes written to the temp file), (b) localSum was compared equal to remoteSum, (c) remoteSum was read from the connection; plus 'err == nil implies exactly one rename' for receiveData and recvFile1. All inputs, all token streams, no bound.",
   note="Trusted: hash.Hash/md4, io.MultiWriter, bytes.Equal, renameio contracts in externals.spec; error propagation above recvFile1 (RecvFiles, Do, errgroup) is by inspection only.",
   design="4.3"),
 "C04": dict(
   text="Effect contract over every receiver function: no call that writes content directly at a final path (create/truncate/open-for-write/rename/link/symlink by name, ambient path writes) is reachable - data goes through renameio's pending file, symlinks through SymlinkRoot; and receiveData is proved to clean up the pending file it created on every return path (deferred Cleanup). The crash-point quantifier is discharged by the invariant holding at every program point.",
   note="Trusted: rename(2) atomicity, renameio; SIGKILL leaves temp files (allowed); goroutine orphaning after an error is a scheduling matter (C18).",
   design="4.4"),
 "C05": dict(
   text="Effect contract, all file lists: for every function of package receiver each file-system effect (open, create temp, rename, mkdir, symlink, chmod, chtimes, chown, unlink, mknod/mkfifo/socket, delete walk) is proved to go through the *os.Root stored in rt.DestRoot at entry (or a file/fd/procfd path derived from it); ClientRun and the daemon's handleConnReceiver are proved to open that root on the destination path (or a rooted sub-directory) and nothing else. No path string is ever inspected: confinement comes from which API receives it.",
   note="Trusted: os.Root's own traversal resistance (Go runtime; a sub-agent observed that Go 1.25.0 OpenRoot(\"esc/\") with a trailing slash follows an escaping symlink - that is inside this trusted base, see DESIGN.md), the effect table in externals.spec, /proc/self/fd semantics.",
   design="4.5"),
 "C06": dict(
   text="Effect contract: every file-system read in package sender goes through a FileSource (whose two implementations are proved to touch only their own root / fs.FS) or through os.OpenRoot on the local directory the function was given, and the daemon's handleConn/handleConnSender are proved to pass the module's path. Request path strings never reach an ambient-path API.",
   note="Trusted: os.Root / Root.FS() confinement, fs.WalkDir, user-supplied fs.FS; HandleDaemonConn's module lookup is not under contract.",
   design="4.6"),
 "C07": dict(
   text="Effect contract: handleConnReceiver, handleConn: every file-system write effect is proved to be under the path condition module==nil (command mode) or module.Writable; handleConnSender and the whole sender package have no write effect at all; validateModule: FS-backed modules cannot be writable.",
   note="Trusted: effect table; that HandleDaemonConn passes a copy of the configured module (getModule) is by inspection.",
   design="4.7"),
 "C10": dict(
   text="Effect contract: for every receiver function, DryRun (at entry) implies no file-system write effect on any path; callees that write unconditionally carry the precondition !DryRun which is proved at each call site; the sender transmits file data (calls sendFile/hashSearch) only when dry_run is 0. Three unguarded mutation sites were found as failing obligations, replayed on the real code and fixed.",
   note="Trusted: effect table. Creating the destination directory itself (outside the statement: 'inside an existing destination') is not an obligation.",
   design="4.10"),
 "C09": dict(
   text="Functional contracts proved on the real code: sortFileList establishes 'sorted by name' (sort.Slice contract with the real comparator captured as a predicate); findInFileList(list, name) <=> membership, for every sorted list, via the sort.Search contract (monotonicity of the real predicate is derived from sortedness and the string-order axioms); the delete callback, per visited entry: listed => kept, extraneous => RemoveAll on the destination root unless dry run, walk errors passed on, SkipDir only for directories; deleteFiles: nothing removed when the sender reported I/O errors, and a walk is started whenever the list contains the top directory; Do: nothing removed without --delete; ClientRun/handleConnReceiver pass a sorted list.",
   note="Trusted: fs.WalkDir's traversal (per-entry contract => whole tree is not machine-checked), sort.Slice/sort.Search, RemoveAll. Not covered (recorded in DESIGN.md): exclude rules are unknown to the deleting receiver; --delete is not forwarded when pushing.",
   design="4.9"),
 "C11": dict(
   text="Ghost file-system metadata map (mtime seconds, permission bits, uid, gid per (root, name)) updated only by the Chtimes/Chmod/Lchown contracts and read by Lstat: setPerms is proved to leave the entry with the requested mtime (to the second) and permission bits, to leave symlinks and dry runs untouched and every other entry unchanged; setUid changes owner/group exactly under the preserve options and privilege; FileMode maps protocol type bits to Go mode bits; recvGenerator: without -p an existing regular destination file keeps its permission bits (found failing on the pinned tree for up-to-date files, replayed, fixed).",
   note="Partial: device numbers, symlink targets, directory touch-up and the sender's mode encoding are not yet under contract. Trusted: syscall semantics via *os.Root, Lstat reports current metadata, numeric ids.",
   design="4.11"),
 "C12": dict(
   text="The update rule is proved bit-exact on the real skipFile/recvGenerator: for a regular-file entry the generator writes a request iff the destination is missing, or not regular, or its size differs, or (with -c) its MD4 differs, or (-I) always, or its mtime differs at one-second granularity - six labelled postconditions over all sizes, times and option values; modTimeEqual <=> equal seconds; RootChecksum = MD4 of the file content; setPerms sets mtime to the second (the other half of repeat-sync idempotence).",
   note="Trusted: time.Time contracts, Lstat, io.Copy; the composition 'second run requests nothing' is two proved halves, not a machine-checked session property.",
   design="4.12"),
 "C13": dict(
   text="filterRuleList.matches is proved equal to the recursive specification 'the first rule whose (base)name matches decides: exclude => out, include => in, none => in' for every rule list and name (loop invariant over a recursive spec function); rule matching = whole name if the pattern has a slash, base name otherwise; parseFilter maps '- x' / '+ x'; the walk callback answers SkipDir only for directories. Two defects (include acted as exclude; an excluded file hid its later siblings) were found as failing obligations, replayed and fixed.",
   note="Trusted: fs.WalkDir pruning, filepath.Base. Not covered: the rule-list transmission round trip; client-as-sender passes no rules (recorded in DESIGN.md).",
   design="4.13"),
 "C19": dict(
   text="checkACL is proved against the first-match specification for every rule list and address: empty list grants; unparsable address denies; otherwise nil <=> (the first rule that is not skipped [well formed and not covering the address] is a well-formed covering allow rule) or every rule is skipped - reaching a malformed rule is an error (nested-quantifier postcondition, loop invariant 'all earlier rules were skipped'). HandleDaemonConn: handleConn is reached only after checkACL returned nil for the requested module's own ACL list and this connection's address.",
   note="Trusted: net.SplitHostPort/ParseIP/ParseCIDR/IPNet.Contains (IPv4, IPv6, v4-mapped handling lives there), strings.Index.",
   design="4.19"),
 "C17": dict(
   text="Frame contracts proved on the real multiplexer, all payloads and all frame sequences: writeFrame emits exactly (7+tag)<<24|len as a little-endian word followed by the given slice unchanged (ghost stream accumulator), under the precondition tag<=2 and len<=262144 that is proved at its call sites; WriteMsg/Write accept payloads of any length and are proved to cut them into consecutive, gap-free parts of at most maxMessageSize bytes each (loop invariant 'sent prefix'), returning len(p) on success; ReadMsg decodes tag and length as the inverse of that encoding (a lemma proved by the solver) and accepts at most maxMessageSize bytes; Read delivers a data frame whole (never truncating: the buffer precondition >= maxMessageSize is proved at bufio.NewReaderSize in ClientRun), yields (0,nil) for an info frame and an error for an error frame or unknown tag, and its panic is proved unreachable. A defect (payloads above the limit were sent as one over-limit frame, from 16 MiB on with a corrupted tag) was found as a failing obligation, replayed and fixed.",
   note="Trusted: io.Reader/io.Writer laws of the callers (bufio.Reader.Read, io.ReadFull, binary.Read/Write): a (0,nil) read is retried, bytes are consumed in order - this is what turns the per-frame contract into 'any re-framing yields the same byte stream'; the text of the error carried by an error frame is not checked (fmt.Errorf is opaque).",
   design="4.17"),
 "C02": dict(
   text="Both halves of the delta codec are under contract on the real code, for every file, block layout and token stream. Sender: the sliding read window (mapStruct.ptr) is proved against its representation invariant 'window[k] == file byte pOffset+k' with a ghost model of the file and its read cursor: every request inside the file returns exactly the requested bytes (content and segment postconditions, no bound on sizes), never fails on a static file, and keeps the invariant; simpleSendToken/sendToken/matched: literal chunks are exactly the consecutive file ranges since the last match, each announced by its length, followed by the token -(i+1); lastMatch advances exactly past what was sent and hashed; hashSearch: all index/slice/window requests are in range (loop invariants over offset, k, backlog), a block reference is emitted only after the seeded MD4 of the source range [offset, offset+len_i), truncated to the agreed length, was compared equal to the receiver's and the lengths agree (strong-checksum gate), the final flush is at end of file; SendFiles builds valid search tables; sendFile sends the whole file as consecutive ranges; Checksum2 = MD4(block ++ seed). Receiver: a literal token writes exactly the bytes that follow it, a block reference t writes exactly basis bytes [t*BlockLength, +len) with the remainder length for the last block. Three defects (window rounded past EOF, empty-source panic, both replayed; over-limit frames under C17) were found as failing obligations and fixed.",
   note="Trusted: the file model (static source, reads return data or an error), strong-checksum equality standing for byte equality (MD4), ghost cursor ownership, io.CopyBuffer for the whole-file hash of sendFile; omitted calls are not detected by call-site assertions; the composition 'tiles + equal blocks => identical file' is argued in DESIGN.md, not machine-checked as one theorem.",
   design="4.2"),
 "C16": dict(
   text="Partial, stated as such: the part of 'matches are found at every byte offset' that is a property of the search structure is proved on the real code for every signature: SendFiles sorts the targets by tag and builds, per file, a fresh tag table that maps every occurring tag to the first index of its run and nothing else (loop invariant over the map model, sort.Slice contract with the real comparator); hashSearch starts its scan at that index and leaves the scan only when the run is exhausted (loop-exit clause on every edge into the loop's successor block; a match leaves through the tail that is not part of the loop) - hence every signature block whose tag equals the window's tag is compared at every offset (call-site assertion 'no candidate outside the scan'); together with C02's invariant that the window examined at offset o is the file range [o, o+k) and that offsets advance by one between matches.",
   note="NOT covered: the rolling update of s1/s2 (that the tag looked up at an offset is the weak checksum of the window there; 32-bit multiplicative arithmetic) and the quantitative bound on literal bytes; these remain assumptions. Trusted: sort.Slice for a strict weak order.",
   design="4.16"),
 "C01": dict(
   text="Partial, stated as such: C01 is a whole-session theorem; this check machine-checks the links of its chain that no other check owns, on the real code and for all inputs: (1) both ends number the files alike - the sender sorts its list by wire name before it answers requests by index (precondition of SendFiles proved in Do through the sort.Slice contract with the real comparator) and the receiver sorts its copy by the same key (sortFileList, ReceiveFileList); (2) transfers of static files do not fail spuriously - every window request inside the file succeeds and returns exactly the file's bytes (ptr: succeeds/content, replay for failures), literal runs and hashed ranges tile the file (matched, simpleSendToken), sendFile sends the whole file as consecutive ranges up to its size. The other links are the claims of C02 (delta codec both ways), C03 (only checksum-verified data is renamed into place), C12 (update rule); two defects on this chain were found and fixed (window past EOF, empty-source panic).",
   note="The composition of the links into 'every selected file ends byte-identical' over a whole session, role arrangements, path mapping of source arguments and the file-list encoding (C15, not claimed) are NOT machine-checked. Trusted: sort.Slice, static source tree.",
   design="4.1"),
}
not_yet = "check not built yet in this session (work in progress; see DESIGN.md for the planned contract)"
na = {"C18": "liveness under all schedules / deadlock freedom / data-race freedom are whole-history and concurrency properties; per-function pre/postconditions over sequential SSA cannot express them and govc has no model of goroutines or channels (DESIGN.md §4.18)"}
src=subprocess.run(["git","-C","/repo","log","--format=%h %s","08e971e..HEAD"],capture_output=True,text=True).stdout.strip().split("\n")
hooks=[l.split()[0] for l in src if l.split(" ",1)[1].startswith("verif:")]
m={"version":1,
 "setup_cmd":"cd /verif/govc && GOFLAGS=-mod=mod GOPROXY=off go build -o /verif/bin/govc .",
 "hooks":{"guard":"verif","enable":"govc loads /repo with BuildFlags -tags=verif; the hook files are comment-only contracts_verif.go files (//go:build verif), no executable hook exists","baseline_off_cmd":"cd /repo && GOFLAGS=-mod=mod GOPROXY=off go test -vet=off -count=1 -timeout 25m ./...","source_commits":hooks,"add_only":True},
 "engines":[{"name":"govc","path":"/verif/govc","serves_properties":sorted(claimed),"kind_free_text":"VC generator over go/ssa (x/tools v0.29.0) + contract language + z3-new/z3/cvc5 portfolio; replay of solver models via go test -overlay"}],
 "checks":[], "not_applicable":[]}
for i in ids:
    if i in claimed:
        c=claimed[i]
        m["checks"].append({"property_id":i,"quick_cmd":f"./check {i} --tier quick","thorough_cmd":f"./check {i} --tier thorough",
          "evidence_file":f"/verif/evidence/{i}.json","replay_cmd_template":"cat {path}","engine":"govc",
          "level_claimed":{"category":"proof","text":c["text"],"design_ref":"DESIGN.md §"+c["design"]},
          "level_note":c["note"],"technique":T})
    else:
        m["not_applicable"].append({"property_id":i,"reason":na.get(i,not_yet)})
json.dump(m,open('/verif/MANIFEST.json','w'),indent=1)
print("claimed:",sorted(claimed))
