#!/usr/bin/env python3
"""Regenerates /verif/MANIFEST.json from the table below."""
import json, subprocess
ids=[json.loads(l)['id'] for l in open('/verif/properties.jsonl')]
T="contract-based deductive verification: weakest-precondition style VCs generated from go/ssa of /repo (govc), discharged by z3/cvc5"
claimed = {
 "C08": dict(
   text="Zero-annotation safety sweep plus supporting functional contracts: for 65 functions reachable from peer-supplied bytes (daemon and client side) every index, slice, make, integer division, non-comma-ok type assertion, explicit panic and process-exit site is turned into a verification condition over unconstrained peer input (every value read from the connection is arbitrary in its type, every read may fail) and discharged by an SMT solver; the facts that cross function boundaries (validated checksum header ranges, option-table typing, multiplex buffer size) are contracts proved on the real code. A violated obligation comes with the solver's model replayed against the real function where a replay template exists.",
   note="Trusted: govc itself, go/ssa, SMT solvers; externals.spec entries used (listed per run in the evidence); nil-pointer dereference and nil-map writes are not swept; the sender's delta-search functions (hashSearch, matched, simpleSendToken, ptr, sendFile, mapFile) are not yet under the sweep (listed as deferred); option-table typing rests on a trusted contract backed by an exhaustive table enumeration; os.Exit paths of the shared option parser are recorded as open known findings.",
   design="4.8"),
}
not_yet = "check not built yet in this session (work in progress; see DESIGN.md for the planned contract)"
na = {"C18": "liveness under all schedules / deadlock freedom / data-race freedom are whole-history and concurrency properties; per-function pre/postconditions over sequential SSA cannot express them and govc has no model of goroutines or channels (DESIGN.md §4.18)"}
src=subprocess.run(["git","-C","/repo","log","--format=%h %s","08e971e..HEAD"],capture_output=True,text=True).stdout.strip().split("\n")
hooks=[l.split()[0] for l in src if l.split(" ",1)[1].startswith("verif:")]
m={"version":1,
 "setup_cmd":"cd /verif/govc && GOFLAGS=-mod=mod GOPROXY=off go build -o /verif/bin/govc .",
 "hooks":{"guard":"verif","enable":"govc loads /repo with BuildFlags -tags=verif; the hook files are comment-only contracts_verif.go files (//go:build verif), no executable hook exists","baseline_off_cmd":"cd /repo && GOFLAGS=-mod=mod GOPROXY=off go test -vet=off -count=1 -timeout 25m ./...","source_commits":hooks,"add_only":True},
 "engines":[{"name":"govc","path":"/verif/govc","serves_properties":sorted(claimed),"kind_free_text":"VC generator over go/ssa (x/tools v0.29.0) + contract language + z3-new/z3/cvc5 portfolio; replay of solver models via go test -overlay"}],
 "checks":[], "not_applicable":[]}
for i in ids:
    if i in claimed:
        c=claimed[i]
        m["checks"].append({"property_id":i,"quick_cmd":f"./check {i} --tier quick","thorough_cmd":f"./check {i} --tier thorough",
          "evidence_file":f"/verif/evidence/{i}.json","replay_cmd_template":"cat {path}","engine":"govc",
          "level_claimed":{"category":"proof","text":c["text"],"design_ref":"DESIGN.md §"+c["design"]},
          "level_note":c["note"],"technique":T})
    else:
        m["not_applicable"].append({"property_id":i,"reason":na.get(i,not_yet)})
json.dump(m,open('/verif/MANIFEST.json','w'),indent=1)
print("claimed:",sorted(claimed))
