#!/bin/bash
# run checks against a seeded change: tools/seedtest.sh <patch.diff> <property...>
patch=$1; shift
export VERIF_EVIDENCE_DIR=/var/tmp/verif-scratch/evidence-mut
if [ -n "$(git -C /repo status --short)" ]; then echo "REFUSING: /repo has uncommitted changes"; exit 2; fi
git -C /repo apply "$patch" || { echo "patch does not apply"; exit 2; }
for p in "$@"; do
  /verif/check $p --tier quick 2>&1 | grep -E "VIOLATION|undecided|tool error|^$p:" | cut -c1-220
  echo "exit($p)=${PIPESTATUS[0]}"
done
git -C /repo checkout -- .
