#!/bin/bash
# tools/store_seed.sh <srcdir> <name> "<detected by>"   — keep a confirmed seeded change under /verif/seeded/<name>/
src=$1; name=$2; det=$3
mkdir -p /verif/seeded/$name
cp $src/patch.diff /verif/seeded/$name/
cp $src/*_test.go /verif/seeded/$name/ 2>/dev/null
python3 - "$src/meta.json" "/verif/seeded/$name/meta.json" "$det" <<'PY'
import json,sys
m=json.load(open(sys.argv[1]))
m['confirmed_by_me']="tools/verify_seed.sh: in a scratch worktree of /repo HEAD the patch applies and builds, the demo fails with it, the full suite (go test -vet=off -count=1 ./...) still passes with it, and the demo passes without it"
m['detected_by']=sys.argv[3]
json.dump(m,open(sys.argv[2],'w'),indent=1)
PY
