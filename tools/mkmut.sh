#!/bin/bash
# tools/mkmut.sh <name> <file> <python-expr old> <new>  : create a must-fail patch by string replacement
name=$1; file=$2; old=$3; new=$4; kind=${5:-must_fail}
cd /repo || exit 2
if [ -n "$(git status --short)" ]; then echo "REFUSING: /repo dirty"; exit 2; fi
python3 - "$file" "$old" "$new" <<'PY' || { git checkout -- .; exit 3; }
import sys
p,old,new=sys.argv[1:4]
s=open(p).read()
if old not in s: 
    print("OLD TEXT NOT FOUND in",p); sys.exit(1)
open(p,'w').write(s.replace(old,new,1))
PY
export GOFLAGS=-mod=mod GOPROXY=off
if ! go build ./... 2>/tmp/mkmut.err; then echo "DOES NOT BUILD"; cat /tmp/mkmut.err; git checkout -- .; exit 4; fi
git diff > /verif/selftest/$kind/$name.patch
git checkout -- .
echo "created $kind/$name.patch"
