#!/bin/bash
# tools/parallel_mut.sh [lanes] [pattern]: run every must-fail mutation and every stored seeded
# change (whose name contains pattern) against the check of its property, in scratch worktrees of
# /repo (VERIF_REPO), several at a time. /repo itself is not touched.
# Results: stdout; seeds also to /verif/seeded/RESULTS.txt and their meta.json (when no pattern).
lanes=${1:-2}
pat=${2:-}
cd /verif
export VERIF_EVIDENCE_DIR=/var/tmp/verif-scratch/evidence-mut
# a mutated tree only has to fail: no second chances for undecided obligations (much faster)
export GOVC_NO_RETRY=1
# ... but a solver budget that allows for the load of the other lanes
export GOVC_TIMEOUT=40
work=/var/tmp/verif-scratch/mutq.$$; mkdir -p $work
ls selftest/must_fail/*${pat}*.patch 2>/dev/null | sed 's/^/M /' > $work/all
for d in seeded/*${pat}*/; do [ -f ${d}patch.diff ] && echo "S ${d}patch.diff"; done >> $work/all
split -n r/$lanes -d $work/all $work/lane.
run_lane() {
  lane=$1; wt=/tmp/mutlane-$lane-$$
  git -C /repo worktree add -q --detach $wt HEAD || exit 2
  while read kind f; do
    if [ $kind = M ]; then prop=$(basename $f | cut -d- -f1); name=$(basename $f .patch); else name=$(basename $(dirname $f)); prop=${name%%-*}; fi
    git -C $wt checkout -q -- . ; git -C $wt clean -fdq
    # baseline, once per property and under the same load: what fails on the unchanged tree when
    # nothing is retried (timeouts); such obligations do not count as a detection below
    if mkdir $work/base.$prop.lock 2>/dev/null; then
      VERIF_REPO=$wt VERIF_SCRATCH=/var/tmp/verif-scratch/lane$lane ./check $prop --tier quick 2>&1 | grep VIOLATION | sed 's/.*replay=.verif.replays.[A-Z0-9]*.//; s/\.txt.*//' > $work/base.$prop.tmp
      mv $work/base.$prop.tmp $work/base.$prop
    fi
    while [ ! -f $work/base.$prop ]; do sleep 5; done
    if ! git -C $wt apply /verif/$f 2>/dev/null; then echo "$kind $name: PATCH DOES NOT APPLY"; continue; fi
    out=$(VERIF_REPO=$wt VERIF_SCRATCH=/var/tmp/verif-scratch/lane$lane ./check $prop --tier quick 2>&1); rc=$?
    viol=$(echo "$out" | grep VIOLATION | sed 's/.*replay=.verif.replays.[A-Z0-9]*.//; s/\.txt.*//' | grep -vxFf $work/base.$prop | head -2 | tr '\n' ' ')
    if [ $rc = 1 ] && [ -z "$viol" ]; then rc=9; fi
    case $rc in
      9) echo "$kind $name: MISSED by check $prop (only obligations that also time out on the unchanged tree without retries)";;
      1) echo "$kind $name: DETECTED by check $prop: $viol";;
      2) echo "$kind $name: UNDECIDED by check $prop (rc=2, $(echo "$out" | grep -c 'stale contract') stale clause(s))";;
      *) echo "$kind $name: MISSED by check $prop (rc=$rc)";;
    esac
  done < $work/lane.0$lane
  git -C /repo worktree remove --force $wt
}
for l in $(seq 0 $((lanes-1))); do run_lane $l > $work/out.$l 2>&1 & done
wait
cat $work/out.* | sort -k2 > $work/summary
cat $work/summary
if [ -z "$pat" ]; then
  grep "^S " $work/summary | sed 's/^S //' > seeded/RESULTS.txt
  python3 - $work/summary <<'PY'
import json,sys,os
for l in open(sys.argv[1]):
    if not l.startswith('S '): continue
    name,res=l[2:].strip().split(': ',1)
    p='/verif/seeded/%s/meta.json'%name
    if os.path.exists(p):
        m=json.load(open(p)); m['detected_by']=res; json.dump(m,open(p,'w'),indent=1)
PY
fi
echo "mutations not detected: $(grep '^M ' $work/summary | grep -vc DETECTED)"
rm -rf $work
