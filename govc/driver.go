package main

import (
	"regexp"
	"encoding/json"
	"fmt"
	"go/types"
	"os"
	"path/filepath"
	"runtime/debug"
	"sort"
	"strings"
	"sync"
	"time"

	"golang.org/x/tools/go/ssa"
)

type OblResult struct {
	Script  string // the query that was answered unsat (kept in the thorough tier only)
	Cross   string // thorough tier: verdict of a second, different solver on the same query
	Obl     *Obligation
	Status  string // discharged, trivial, failed, unknown
	Solver  string
	Seconds float64
	Model   map[string]string
	Raw     string
	Size    int
}

type FuncRun struct {
	Func     string
	Mode     string
	X        *X
	Results  []*OblResult
	Err      string
	Instrs   int
	File     string
	Seconds  float64
}

func (x *X) active(cl *Clause) bool {
	if len(cl.Props) == 0 {
		return true
	}
	for _, p := range cl.Props {
		if p == x.prop || x.prop == "" || contains(x.also, p) {
			return true
		}
	}
	return false
}

// VerifyFunc symbolically executes fn as a root and returns the context with
// its obligations (not yet discharged).
func (w *World) VerifyFunc(fn *ssa.Function, mode *Mode, prop string) (x *X, err error) {
	x = NewX(w, shortFuncName(fn), mode)
	x.prop = prop
	defer func() {
		if r := recover(); r != nil {
			if se, ok := r.(stopExec); ok {
				err = fmt.Errorf("%s: %s", shortFuncName(fn), se.msg)
				return
			}
			err = fmt.Errorf("%s: internal error: %v\n%s", shortFuncName(fn), r, debug.Stack())
		}
	}()
	curFuncStack = nil
	B := x.B
	st := &State{heap: map[string]*Term{}, cells: map[int]Value{}, pgen: map[string]int{}}
	ct := w.ContractFor(fn)
	x.also = w.Also[prop]
	if ct != nil && ct.NoWrap && (len(ct.NoWrapProps) == 0 || prop == "" || contains(ct.NoWrapProps, prop) || overlaps(ct.NoWrapProps, x.also)) {
		x.noWrap = true
	}
	nullable := map[string]bool{}
	if ct != nil {
		for _, n := range ct.Nullable {
			nullable[n] = true
		}
	}
	// ghost variables exist from the start (so that merges keep per-path values)
	{
		ge := &Env{x: x}
		var gnames []string
		for n := range w.Specs.Ghosts {
			gnames = append(gnames, n)
		}
		sort.Strings(gnames)
		for _, n := range gnames {
			x.heapRead(st, "ghost:"+n, ge.sortByName(w.Specs.Ghosts[n].Sort))
		}
	}
	// user axioms
	axEnv := &Env{x: x, st: st, vars: map[string]SV{}, pkg: funcPkg(fn)}
	for _, ax := range w.Specs.Axioms {
		if len(ax.Props) > 0 && prop != "" && !contains(ax.Props, prop) {
			continue
		}
		var t *Term
		if e := safeEval(func() { t = axEnv.Bool(ax.Expr) }); e != nil {
			return x, fmt.Errorf("axiom %s: %v", ax.Name, e)
		}
		if ax.Lemma && !w.lemmaDone[ax.Name] {
			// a lemma is proved once per run (from the axioms and lemmas before it) and only then assumed
			w.lemmaDone[ax.Name] = true
			o := &Obligation{Name: "lemma#" + ax.Name, Kind: "lemma", Func: x.root, Pos: fmt.Sprintf("%s:%d", ax.File, ax.Line), Guard: B.True(), Cond: t, NAssum: len(x.assums)}
			o.Extra = map[string]string{"lemma": strings.TrimSpace(ax.Src)}
			x.obligs = append(x.obligs, o)
		}
		x.assumeGlobal(t, "axiom "+ax.Name)
	}
	var params []Value
	for _, p := range fn.Params {
		v := x.freshValue(p.Type(), "p_"+p.Name())
		params = append(params, v)
		if _, ok := p.Type().Underlying().(*types.Pointer); ok {
			x.paramRefs = append(x.paramRefs, v.One())
			if !nullable[p.Name()] {
				x.assumeGlobal(B.Lt(B.Int(0), v.One()), "pointer parameter non-nil")
			} else {
				x.assumeGlobal(B.Le(B.Int(0), v.One()), "refs are non-negative")
			}
		}
	}
	var bind []Value
	for _, fv := range fn.FreeVars {
		if p, ok := fv.Type().Underlying().(*types.Pointer); ok {
			switch p.Elem().Underlying().(type) {
			case *types.Struct, *types.Array:
				v := x.freshValue(fv.Type(), "fv_"+fv.Name())
				x.assumeGlobal(B.Lt(B.Int(0), v.One()), "captured pointer non-nil")
				bind = append(bind, v)
			default:
				x.nextCell++
				l := &Loc{Kind: LCell, Cell: x.nextCell, T: p.Elem()}
				st.cells[l.Cell] = x.freshValue(p.Elem(), "fv_"+fv.Name())
				x.cellEscaped[l.Cell] = true
				bind = append(bind, Value{T: fv.Type(), L: []*Term{x.ptrOf(l)}})
			}
		} else {
			bind = append(bind, x.freshValue(fv.Type(), "fv_"+fv.Name()))
		}
	}
	fr := x.newFrame(fn, params, bind, 0)
	fr.isRoot = true
	entry := st.clone()
	fr.entry = entry
	env := fr.rootEnvAt(entry, entry)
	x.rootEnv = env
	// allows: explicit + defaults
	if ct != nil {
		for _, al := range ct.Allows {
			if x.active(al) {
				x.rootAllows = append(x.rootAllows, al)
			}
		}
	}
	for _, d := range w.DefaultsFor(fn) {
		for _, cl := range d.Clauses {
			if cl.Kind == "allows" && x.active(cl) {
				x.rootAllows = append(x.rootAllows, cl)
			}
		}
	}
	if x.rootAllows == nil {
		x.rootAllows = []*Clause{}
	}
	if ct != nil && ct.HasMod && mode.Functional {
		x.rootModifies = append([]string{}, normalizeModifies(ct.Modifies, fn)...)
	}
	pc := B.True()
	if ct != nil {
		for _, rq := range ct.Requires {
			if !x.active(rq) {
				continue
			}
			var t *Term
			if e := safeEval(func() { t = env.Bool(rq.Expr) }); e != nil {
				// the clause no longer fits the code (a renamed parameter): skipped, remembered
				x.noteStale(fmt.Sprintf("%s: requires %q: %v", x.root, rq.Src, e))
				continue
			}
			x.assume(pc, t, "precondition "+rq.Src)
			x.requires = append(x.requires, t)
		}
	}
	nFresh0 := len(x.freshRefs)
	rpc, rst, vals := fr.run(pc, st)
	if ct != nil && mode.Functional && !rpc.IsFalse() {
		rnames := ct.Results
		if len(rnames) == 0 {
			rnames = resultNames(fn.Signature)
		}
		// the merged post-state serves --eval and the replay machinery
		postM := fr.rootEnvAt(rst, entry)
		postM.bindResults(rnames, vals)
		x.postEnv = postM
		// "fresh": the (first) result is nil or an object allocated during this call
		if ct.Fresh && !ct.Trusted && !ct.Extern {
			entryFresh := nFresh0
			for _, rp := range fr.rets {
				if rp.pc.IsFalse() || len(rp.vals) == 0 {
					continue
				}
				var r *Term
				switch fn.Signature.Results().At(0).Type().Underlying().(type) {
				case *types.Pointer, *types.Map:
					r = rp.vals[0].L[0]
				case *types.Interface:
					r = rp.vals[0].L[1]
				}
				if r == nil {
					continue
				}
				alts := []*Term{B.Eq(r, B.Int(0))}
				for _, fr0 := range x.freshRefs[entryFresh:] {
					alts = append(alts, B.Eq(r, fr0))
				}
				o := x.oblige("ensures", "fresh-result", rp.pos, rp.pc, B.Or(alts...))
				o.Extra = map[string]string{"ensures": "fresh: the result is nil or was allocated by this call"}
			}
		}
		// Postconditions are proved per return statement, each in its own state: no
		// merging of the return paths, so every query stays small.
		for _, en := range ct.Ensures {
			if !x.active(en) || ct.Trusted {
				continue
			}
			lbl := en.Label
			if lbl == "" {
				lbl = truncate(en.Src, 48)
			}
			for _, rp := range fr.rets {
				if rp.pc.IsFalse() {
					continue
				}
				post := fr.rootEnvAt(rp.state, entry)
				rv := make([]Value, len(rp.vals))
				for k := range rp.vals {
					rv[k] = Value{T: fn.Signature.Results().At(k).Type(), L: rp.vals[k].L}
				}
				post.bindResults(rnames, rv)
				var t *Term
				if e := safeEval(func() { t = post.Bool(en.Expr) }); e != nil {
					x.noteStale(fmt.Sprintf("%s: ensures %q: %v", x.root, en.Src, e))
					break
				}
				o := x.oblige("ensures", lbl, rp.pos, rp.pc, t)
				o.Extra = map[string]string{"ensures": en.Src}
				// later ensures clauses may build on earlier ones (each is proved on its own)
				x.assume(rp.pc, t, "earlier ensures clause "+lbl)
			}
		}
	}
	x.retPC = rpc
	if ct != nil && mode.Functional {
		// a call-site assertion that matched no call proves nothing: report it
		for _, cl := range ct.AtCalls {
			if x.active(cl) && x.atHits[cl] == 0 {
				site := cl.Names[0]
				if cl.Loop != 0 {
					site = fmt.Sprintf("%s@%d", site, cl.Loop)
				}
				x.noteStale(fmt.Sprintf("%s: at %s: assert [%s] matched no call in the function", x.root, site, cl.Label))
			}
		}
	}
	x.splitConjuncts()
	if mode.Functional && ct != nil && (len(ct.Ensures) > 0 || len(ct.LoopInv) > 0 || len(ct.AtCalls) > 0) {
		// vacuity guard: every return statement must be reachable under the contract's
		// assumptions (requires, loop invariants, callee postconditions) unless the
		// contract declares it dead ("unreachable return@k", k in source order)
		sort.SliceStable(x.rootRets, func(i, j int) bool { return x.rootRets[i].tpos < x.rootRets[j].tpos })
		for k, rp := range x.rootRets {
			lbl := fmt.Sprintf("return@%d", k+1)
			if contains(ct.Unreachable, lbl) {
				continue
			}
			o := &Obligation{Name: x.root + "#cover[" + lbl + "]", Kind: "vacuity", Func: x.root, Pos: rp.pos, Guard: rp.pc, Cond: B.False(), NAssum: len(x.assums)}
			o.Extra = map[string]string{"what": "this return statement is unreachable under the contract's assumptions: they are contradictory on this path (proofs about it would be vacuous) or the statement is dead code (declare it: unreachable " + lbl + ")"}
			x.obligs = append(x.obligs, o)
		}
	}
	if mode.Functional && len(x.requires) > 0 {
		// vacuity guard: the preconditions (with the axioms) must be satisfiable, and so must
		// "the function returns" - a contradictory requires would make every obligation hold
		o := &Obligation{Name: x.root + "#vacuity[requires-satisfiable]", Kind: "vacuity", Func: x.root, Pos: w.pos(fn.Pos()), Guard: B.And(x.requires...), Cond: B.False(), NAssum: len(x.assums)}
		o.Extra = map[string]string{"what": "the conjunction of the requires clauses is contradictory (every obligation would hold vacuously)"}
		x.obligs = append(x.obligs, o)
	}
	return x, nil
}

func normalizeModifies(names []string, fn *ssa.Function) []string {
	var out []string
	for _, n := range names {
		switch {
		case n == "*":
			out = append(out, "*")
		case n == "nothing":
		case strings.HasPrefix(n, "ghost."):
			out = append(out, "ghost:"+strings.TrimPrefix(n, "ghost."))
		case len(n) > 2 && n[1] == ':':
			out = append(out, n)
		case strings.HasPrefix(n, "contents("):
			out = append(out, contentsHeapName(n, fn))
		default:
			parts := strings.SplitN(n, ".", 2)
			resolved := false
			for _, p := range fn.Params {
				if p.Name() == parts[0] && len(parts) == 2 {
					if pt, ok := p.Type().Underlying().(*types.Pointer); ok {
						out = append(out, "F:"+heapTypeName(pt.Elem())+"."+parts[1])
						resolved = true
					}
				}
			}
			if !resolved {
				out = append(out, "F:"+n)
			}
		}
	}
	return out
}

func (fr *Frame) rootEnvAt(st, old *State) *Env {
	e := fr.x.envForFunc(fr.fn, fr.fn.Signature, paramNames(fr.fn), fr.params, st, old)
	for i, fv := range fr.fn.FreeVars {
		if i < len(fr.bind) {
			if p, ok := fv.Type().Underlying().(*types.Pointer); ok {
				l := fr.x.locOf(fr.bind[i].One(), p.Elem())
				if l.Kind == LCell {
					if v, ok := st.cells[l.Cell]; ok {
						e.vars[fv.Name()] = svValue(v)
					}
					continue
				}
			}
			e.vars[fv.Name()] = svValue(fr.bind[i])
		}
	}
	return e
}

// ---- discharging -----------------------------------------------------------

func symbolsOf(t *Term, memo map[*Term]map[string]bool) map[string]bool {
	if s, ok := memo[t]; ok {
		return s
	}
	s := map[string]bool{}
	memo[t] = s
	switch t.Op {
	case "const":
		s[t.Name] = true
	case "app":
		s["fn:"+t.Name] = true
	}
	for _, a := range t.Args {
		for k := range symbolsOf(a, memo) {
			s[k] = true
		}
	}
	return s
}

// buildQuery returns the SMT script for an obligation (negated goal).
func hasQuant(t *Term, memo map[*Term]bool) bool {
	if v, ok := memo[t]; ok {
		return v
	}
	r := t.Op == "forall" || t.Op == "exists"
	if !r {
		for _, a := range t.Args {
			if hasQuant(a, memo) {
				r = true
				break
			}
		}
	}
	memo[t] = r
	return r
}

// buildQuery returns the SMT script for an obligation (negated goal). With
// qf set, quantified assumptions are left out (a sound weakening).
func (x *X) buildQuery(o *Obligation, getModel bool, qf bool) (string, int, bool) {
	B := x.B
	goal := B.And(o.Guard, B.Not(o.Cond))
	memo := map[*Term]map[string]bool{}
	qmemo := map[*Term]bool{}
	want := map[string]bool{}
	for k := range symbolsOf(goal, memo) {
		want[k] = true
	}
	type cand struct {
		t    *Term
		syms map[string]bool
		used bool
	}
	var cands []*cand
	droppedQuant := false
	add := func(t *Term) {
		if t.IsTrue() {
			return
		}
		if qf && hasQuant(t, qmemo) {
			droppedQuant = true
			return
		}
		cands = append(cands, &cand{t: t, syms: symbolsOf(t, memo)})
	}
	for _, a := range x.assums[:o.NAssum] {
		add(B.Implies(a.Guard, a.Fact))
	}
	for _, ax := range x.zeroArrayAxioms() {
		add(ax)
	}
	for changed := true; changed; {
		changed = false
		for _, c := range cands {
			if c.used {
				continue
			}
			hit := false
			for s := range c.syms {
				if want[s] {
					hit = true
					break
				}
			}
			if hit {
				c.used = true
				changed = true
				for s := range c.syms {
					want[s] = true
				}
			}
		}
	}
	var asserts []*Term
	for _, c := range cands {
		if c.used {
			asserts = append(asserts, c.t)
		}
	}
	asserts = append(asserts, goal)
	s := B.Script(asserts, "", getModel)
	return s, len(asserts), droppedQuant
}

func (x *X) discharge(timeout time.Duration, workers int) []*OblResult {
	results := make([]*OblResult, len(x.obligs))
	var jobs []int
	for i, o := range x.obligs {
		r := &OblResult{Obl: o}
		results[i] = r
		if o.Kind == "vacuity" {
			jobs = append(jobs, i)
			continue
		}
		if o.Cond.IsTrue() || o.Guard.IsFalse() || x.B.Implies(o.Guard, o.Cond).IsTrue() {
			r.Status = "trivial"
			r.Solver = "simplifier"
			continue
		}
		jobs = append(jobs, i)
	}
	var mu sync.Mutex // term bank is not thread-safe: build scripts under the lock
	var wg sync.WaitGroup
	ch := make(chan int)
	for k := 0; k < workers; k++ {
		wg.Add(1)
		go func() {
			defer wg.Done()
			for i := range ch {
				r := results[i]
				if r.Obl.Kind == "vacuity" {
					// satisfiable (or not refutable) = fine; only a proof of unsatisfiability is a failure
					mu.Lock()
					qf, _, _ := x.buildQuery(r.Obl, false, true)
					mu.Unlock()
					r.Size = len(qf)
					sr := Solve(qf, fmt.Sprintf("%s_%d_vac", x.root, i), min(timeout, 3*time.Second))
					r.Solver, r.Seconds, r.Raw = sr.Solver, sr.Seconds, sr.Raw
					if sr.Status == "unsat" {
						r.Status = "failed"
						r.Raw = "the requires clauses are unsatisfiable\n" + sr.Raw
					} else {
						r.Status = "discharged"
					}
					continue
				}
				mu.Lock()
				qfScript, _, dropped := x.buildQuery(r.Obl, true, true)
				mu.Unlock()
				r.Size = len(qfScript)
				sr := Solve(qfScript, fmt.Sprintf("%s_%d", x.root, i), timeout)
				r.Solver, r.Seconds, r.Raw = sr.Solver, sr.Seconds, sr.Raw
				if sr.Status == "unsat" {
					r.Status = "discharged"
					if x.crossCheck {
						r.Script = qfScript
					}
					continue
				}
				if !dropped {
					if sr.Status == "sat" {
						r.Status = "failed"
						r.Model = sr.Model
					} else {
						r.Status = "unknown"
					}
					continue
				}
				// second tier: quantifier-free by instantiation at the goal's array indices
				mu.Lock()
				inst := x.buildInstantiated(r.Obl)
				mu.Unlock()
				if inst != "" {
					sri := Solve(inst, fmt.Sprintf("%s_%d_i", x.root, i), timeout)
					r.Seconds += sri.Seconds
					if sri.Status == "unsat" {
						r.Status, r.Solver, r.Raw, r.Size = "discharged", sri.Solver+"(instantiated)", sri.Raw, len(inst)
						if x.crossCheck {
							r.Script = inst
						}
						continue
					}
				}
				// retry with the quantified assumptions
				mu.Lock()
				full, _, _ := x.buildQuery(r.Obl, true, false)
				mu.Unlock()
				r.Size = len(full)
				sr2 := Solve(full, fmt.Sprintf("%s_%d_q", x.root, i), timeout)
				r.Seconds += sr2.Seconds
				switch {
				case sr2.Status == "unsat":
					r.Status, r.Solver, r.Raw = "discharged", sr2.Solver, sr2.Raw
					if x.crossCheck {
						r.Script = full
					}
				case sr2.Status == "sat":
					r.Status, r.Solver, r.Raw, r.Model = "failed", sr2.Solver, sr2.Raw, sr2.Model
				case sr.Status == "sat":
					// counterexample of the quantifier-free relaxation; the full query is undecided
					r.Status, r.Model = "failed", sr.Model
					r.Raw = "model of the quantifier-free relaxation; full query: " + sr2.Status + "\n" + sr.Raw
				default:
					r.Status, r.Raw = "unknown", sr2.Raw
				}
			}
		}()
	}
	for _, j := range jobs {
		ch <- j
	}
	close(ch)
	wg.Wait()
	// Second chance for undecided obligations: a timeout under machine load must
	// not look like a failed proof. Re-run them a few at a time with a
	// fourfold time limit; only a model of the full query counts as "failed".
	var again []int
	for _, i := range jobs {
		r := results[i]
		if x.noRetry[baseName(r.Obl.Name)] {
			continue // an open known finding: expected to fail, no second chance needed
		}
		if r.Obl.Kind != "vacuity" && (r.Status == "unknown" || (r.Status == "failed" && strings.HasPrefix(r.Raw, "model of the quantifier-free relaxation"))) {
			again = append(again, i)
		}
	}
	if len(again) > 0 && len(again) <= 24 && os.Getenv("GOVC_NO_RETRY") == "" {
		sem := make(chan struct{}, 4)
		var wg2 sync.WaitGroup
		for _, i := range again {
			wg2.Add(1)
			sem <- struct{}{}
			go func(i int) {
				defer wg2.Done()
				defer func() { <-sem }()
				r := results[i]
				// first: case analysis over the paths that were merged into this obligation's
				// path condition (each case is a much simpler query)
				st, solver, secs, model, raw := x.solveByCases(r.Obl, timeout, &mu, 0, fmt.Sprintf("%s_%d", x.root, i))
				r.Seconds += secs
				switch st {
				case "unsat":
					r.Status, r.Solver, r.Raw = "discharged", solver+"(by cases)", raw
					return
				case "sat":
					r.Status, r.Solver, r.Raw, r.Model = "failed", solver, raw, model
					return
				}
				mu.Lock()
				full, _, _ := x.buildQuery(r.Obl, true, false)
				mu.Unlock()
				sr := Solve(full, fmt.Sprintf("%s_%d_retry", x.root, i), 4*timeout)
				r.Seconds += sr.Seconds
				switch sr.Status {
				case "unsat":
					r.Status, r.Solver, r.Raw = "discharged", sr.Solver+"(retry)", sr.Raw
				case "sat":
					r.Status, r.Solver, r.Raw, r.Model = "failed", sr.Solver, sr.Raw, sr.Model
				}
			}(i)
		}
		wg2.Wait()
	}
	// thorough tier: every solver-discharged obligation is put to a second, different solver
	if x.crossCheck {
		sem := make(chan struct{}, workers)
		var wg3 sync.WaitGroup
		for _, i := range jobs {
			r := results[i]
			if r.Status != "discharged" || r.Script == "" {
				continue
			}
			wg3.Add(1)
			sem <- struct{}{}
			go func(r *OblResult, i int) {
				defer wg3.Done()
				defer func() { <-sem }()
				first := strings.SplitN(r.Solver, "(", 2)[0]
				for _, other := range []string{"cvc5", "z3", "z3-new"} {
					if other == first {
						continue
					}
					sr := SolveWith(other, r.Script, fmt.Sprintf("%s_%d", x.root, i), timeout)
					switch sr.Status {
					case "unsat":
						r.Cross = "confirmed by " + other
					case "sat":
						r.Cross = "DISAGREES: " + other + " says sat"
						r.Status = "unknown"
						r.Raw = "solver disagreement: " + r.Solver + " unsat, " + other + " sat\n" + sr.Raw
					default:
						if r.Cross == "" {
							r.Cross = other + ": " + sr.Status
						}
						continue // try the next solver
					}
					break
				}
				r.Script = ""
			}(r, i)
		}
		wg3.Wait()
	}
	return results
}

// ---- check configuration -------------------------------------------------

type RootSpec struct {
	Func  string   `json:"func"`
	Modes []string `json:"modes"` // sweep, effects, functional
	Kinds []string `json:"kinds,omitempty"`
}

func overlaps(a, b []string) bool {
	for _, s := range a {
		if contains(b, s) {
			return true
		}
	}
	return false
}

type CheckSpec struct {
	Also     []string   `json:"also,omitempty"` // clauses tagged for these properties are active in this check too
	Deferred []string   `json:"deferred,omitempty"` // analysed by no root of this property, but never inlined
	Property string     `json:"property"`
	Roots    []RootSpec `json:"roots"`
	Effects  []string   `json:"effects,omitempty"` // effect names tracked for this property
	Trusted  []string   `json:"trusted_base"`
	Bounded  []BoundedSpec `json:"bounded,omitempty"`
	Notes    string     `json:"notes,omitempty"`
}

type BoundedSpec struct {
	Name  string `json:"name"`
	Cmd   string `json:"cmd"`
	Bound string `json:"bound"`
}

type KnownFinding struct {
	Property   string `json:"property"`
	Obligation string `json:"obligation"`
	What       string `json:"what"`
	Status     string `json:"status"` // "open" or "fixed"
	Commit     string `json:"commit,omitempty"`
}

type Evidence struct {
	PropertyID  string                 `json:"property_id"`
	Tier        string                 `json:"tier"`
	Seed        int                    `json:"seed"`
	Level       string                 `json:"level"`
	Coverage    map[string]interface{} `json:"coverage"`
	Assumptions []string               `json:"assumptions"`
	WallS       float64                `json:"wall_s"`
	Violations  int                    `json:"violations"`
}

func verifDir() string {
	if d := os.Getenv("VERIF_DIR"); d != "" {
		return d
	}
	return "/verif"
}

func loadChecks() (map[string]*CheckSpec, error) {
	data, err := os.ReadFile(filepath.Join(verifDir(), "contracts", "checks.json"))
	if err != nil {
		return nil, err
	}
	var list []*CheckSpec
	if err := json.Unmarshal(data, &list); err != nil {
		return nil, err
	}
	out := map[string]*CheckSpec{}
	for _, c := range list {
		out[c.Property] = c
	}
	return out, nil
}

func loadKnown() ([]KnownFinding, error) {
	data, err := os.ReadFile(filepath.Join(verifDir(), "known_findings.json"))
	if err != nil {
		if os.IsNotExist(err) {
			return nil, nil
		}
		return nil, err
	}
	var list []KnownFinding
	if err := json.Unmarshal(data, &list); err != nil {
		return nil, err
	}
	return list, nil
}

func loadExpected() (map[string][]string, error) {
	data, err := os.ReadFile(filepath.Join(verifDir(), "contracts", "expected_discharged.json"))
	if err != nil {
		if os.IsNotExist(err) {
			return map[string][]string{}, nil
		}
		return nil, err
	}
	out := map[string][]string{}
	if err := json.Unmarshal(data, &out); err != nil {
		return nil, err
	}
	return out, nil
}

func modeFromNames(names []string) *Mode {
	m := &Mode{}
	for _, n := range names {
		switch n {
		case "sweep":
			m.Sweep = true
		case "effects":
			m.Effects = true
		case "functional":
			m.Functional = true
		}
	}
	return m
}

func loadWorldWithSpecs() (*World, error) {
	repo := os.Getenv("VERIF_REPO")
	if repo == "" {
		repo = "/repo"
	}
	w, err := LoadWorld(repo)
	if err != nil {
		return nil, err
	}
	specs, _ := filepath.Glob(filepath.Join(verifDir(), "contracts", "*.spec"))
	sort.Strings(specs)
	for _, s := range specs {
		if err := w.LoadSpecFile(s); err != nil {
			return nil, err
		}
	}
	// fallback mirror of repo contract files
	mirrors, _ := filepath.Glob(filepath.Join(verifDir(), "contracts", "*.contracts"))
	for _, m := range mirrors {
		base := strings.TrimSuffix(filepath.Base(m), ".contracts")
		have := false
		for _, f := range w.Specs.Files {
			if strings.Contains(f, "/"+strings.ReplaceAll(base, "_", "/")+"/contracts_verif.go") {
				have = true
			}
		}
		if !have {
			if err := w.loadMirror(m); err != nil {
				return nil, err
			}
			w.UsedMirror = append(w.UsedMirror, m)
		}
	}
	w.collectInterestingTypes()
	if checks, err := loadChecks(); err == nil {
		for _, c := range checks {
			if len(c.Also) > 0 {
				w.Also[c.Property] = c.Also
			}
			for _, r := range c.Roots {
				w.NoInline[r.Func] = true
			}
			for _, d := range c.Deferred {
				w.NoInline[d] = true
			}
		}
	}
	for name := range w.Specs.Contracts {
		ct := w.Specs.Contracts[name]
		if ct.Extern {
			if ct.Pure && len(ct.Allows) == 0 {
				w.harmlessExtern[name] = true
			}
			if len(ct.Allows) == 0 {
				w.harmlessExtern[name] = true
			}
		}
	}
	return w, nil
}

func (w *World) loadMirror(path string) error {
	data, err := os.ReadFile(path)
	if err != nil {
		return err
	}
	var lines []string
	var nos []int
	for i, l := range strings.Split(string(data), "\n") {
		if strings.HasPrefix(strings.TrimSpace(l), "//@") {
			lines = append(lines, strings.TrimPrefix(strings.TrimSpace(l), "//@"))
			nos = append(nos, i+1)
		}
	}
	return w.Specs.ParseSpecText(path, lines, nos)
}

func countInstrs(fn *ssa.Function) int {
	n := 0
	for _, b := range fn.Blocks {
		n += len(b.Instrs)
	}
	return n
}

var typeisRe = regexp.MustCompile(`type(?:is|id)\([^"]*"([^"]+)"`)

// collectInterestingTypes finds the concrete types named in typeis/typeid
// expressions; interface values get "dynamic type is not T" facts for those
// T that do not implement the value's static interface type.
func (w *World) collectInterestingTypes() {
	seen := map[string]bool{}
	add := func(src string) {
		for _, m := range typeisRe.FindAllStringSubmatch(src, -1) {
			if seen[m[1]] {
				continue
			}
			seen[m[1]] = true
			if t, ok := w.typeByShortName(m[1]); ok {
				w.InterestingTypes = append(w.InterestingTypes, t)
			}
		}
	}
	for _, ct := range w.Specs.Contracts {
		for _, l := range [][]*Clause{ct.Requires, ct.Ensures, ct.Allows} {
			for _, c := range l {
				add(c.Src)
			}
		}
		for _, l := range ct.LoopInv {
			for _, c := range l {
				add(c.Src)
			}
		}
	}
	for _, sf := range w.Specs.Funcs {
		if sf.Body != nil {
			add(sf.Body.Src)
		}
	}
	sort.Slice(w.InterestingTypes, func(i, j int) bool { return typeKey(w.InterestingTypes[i]) < typeKey(w.InterestingTypes[j]) })
}

// solveByCases splits the obligation's path condition on its largest
// top-level disjunction (the last point where paths were merged) and solves
// the cases separately: unsat iff every case is unsat, sat as soon as one case
// has a model of the full query. Undecided cases are split once more.
func (x *X) solveByCases(o *Obligation, timeout time.Duration, mu *sync.Mutex, depth int, name string) (status, solver string, secs float64, model map[string]string, raw string) {
	mu.Lock()
	var best *Term
	var others []*Term
	for _, c := range conjuncts(o.Guard) {
		if c.Op == "or" {
			if best != nil {
				others = append(others, best)
			}
			best = c // the last one: the most recent merge of paths
			continue
		}
		others = append(others, c)
	}
	mu.Unlock()
	if best == nil || len(best.Args) > 12 {
		return "unknown", "", 0, nil, ""
	}
	all := true
	for k, d := range best.Args {
		mu.Lock()
		o2 := *o
		o2.Guard = x.B.And(append(append([]*Term{}, others...), d)...)
		inst := x.buildInstantiated(&o2)
		full, _, _ := x.buildQuery(&o2, true, false)
		mu.Unlock()
		if inst != "" {
			sri := Solve(inst, fmt.Sprintf("%s_case%d_%d_i", name, depth, k), timeout)
			secs += sri.Seconds
			if sri.Status == "unsat" {
				solver = sri.Solver
				continue
			}
		}
		sr := Solve(full, fmt.Sprintf("%s_case%d_%d", name, depth, k), timeout)
		secs += sr.Seconds
		solver = sr.Solver
		if os.Getenv("GOVC_CASES") != "" {
			fmt.Fprintf(os.Stderr, "cases: %s depth %d case %d/%d: %s (%.1fs) %s\n", o.Name, depth, k+1, len(best.Args), sr.Status, sr.Seconds, truncateStr(d.String(), 400))
		}
		switch sr.Status {
		case "unsat":
			continue
		case "sat":
			return "sat", sr.Solver, secs, sr.Model, "case " + d.String()[:min(200, len(d.String()))] + "\n" + sr.Raw
		}
		if depth < 2 {
			st, sv, s2, m, rw := x.solveByCases(&o2, timeout, mu, depth+1, fmt.Sprintf("%s_%d", name, k))
			secs += s2
			if st == "unsat" {
				continue
			}
			if st == "sat" {
				return "sat", sv, secs, m, rw
			}
		}
		all = false
		break
	}
	if all {
		return "unsat", solver, secs, nil, "all cases unsat"
	}
	return "unknown", solver, secs, nil, ""
}

// ---- quantifier-free tier by instantiation ---------------------------------
//
// Array-range facts ("forall k in [0,n): a[off+k] == ...") are what loop
// invariants, copy/append semantics and window invariants look like here.
// E-matching them inside large merged queries is unstable, so before the
// solver sees any quantifier the generator does the one thing that is needed:
// it skolemises a universally quantified goal and instantiates every
// single-variable quantified assumption at the array indices that occur in
// the goal and in the quantifier-free assumptions (v := index - G for a
// pattern index v + G). Instances are consequences of the assumptions, so an
// "unsat" answer of the resulting quantifier-free query is a proof.

func (x *X) skolemize(t *Term) (*Term, bool) {
	B := x.B
	switch t.Op {
	case "forall":
		m := map[*Term]*Term{}
		for _, bv := range t.Bound {
			m[bv] = B.Fresh("sk_"+bv.Name, bv.Sort)
		}
		body := B.Subst(t.Args[0], m)
		return x.skolemize(body)
	case "=>":
		c, ok := x.skolemize(t.Args[1])
		if !ok {
			return nil, false
		}
		return B.Implies(t.Args[0], c), !hasQuant(t.Args[0], map[*Term]bool{})
	case "and":
		var out []*Term
		for _, a := range t.Args {
			c, ok := x.skolemize(a)
			if !ok {
				return nil, false
			}
			out = append(out, c)
		}
		return B.And(out...), true
	}
	return t, !hasQuant(t, map[*Term]bool{})
}

// selectIndices collects the index terms of every select in t (ground ones).
func (x *X) selectIndices(t *Term, seen map[*Term]bool, out map[*Term]bool) {
	if seen[t] {
		return
	}
	seen[t] = true
	if t.Op == "forall" || t.Op == "exists" {
		return
	}
	if t.Op == "select" && t.Args[1].Sort == IntSort && !x.B.hasBoundVar(t.Args[1]) {
		out[t.Args[1]] = true
	}
	for _, a := range t.Args {
		x.selectIndices(a, seen, out)
	}
}

// linearIn: idx == v + G with G free of v; returns G.
func (x *X) linearIn(idx, v *Term) (*Term, bool) {
	B := x.B
	if idx == v {
		return B.Int(0), true
	}
	if idx.Op != "+" {
		return nil, false
	}
	var rest []*Term
	found := false
	for _, a := range idx.Args {
		if a == v && !found {
			found = true
			continue
		}
		if B.freeBound(a)[v] {
			if g, ok := x.linearIn(a, v); ok && !found {
				found = true
				rest = append(rest, g)
				continue
			}
			return nil, false
		}
		rest = append(rest, a)
	}
	if !found {
		return nil, false
	}
	return B.Add(rest...), true
}

type qfact struct {
	guards []*Term
	v      *Term
	body   *Term
	offs   []*Term // the G of every pattern index v + G in body
}

func (x *X) parseQFact(t *Term) *qfact {
	q := &qfact{}
	for t.Op == "=>" {
		q.guards = append(q.guards, t.Args[0])
		t = t.Args[1]
	}
	if t.Op != "forall" || len(t.Bound) != 1 || t.Bound[0].Sort != IntSort {
		return nil
	}
	q.v, q.body = t.Bound[0], t.Args[0]
	if hasQuant(q.body, map[*Term]bool{}) {
		return nil
	}
	seenG := map[*Term]bool{}
	var walk func(u *Term)
	visited := map[*Term]bool{}
	walk = func(u *Term) {
		if visited[u] {
			return
		}
		visited[u] = true
		if u.Op == "select" && x.B.freeBound(u.Args[1])[q.v] {
			if g, ok := x.linearIn(u.Args[1], q.v); ok && !seenG[g] {
				seenG[g] = true
				q.offs = append(q.offs, g)
			}
		}
		for _, a := range u.Args {
			walk(a)
		}
	}
	walk(q.body)
	if len(q.offs) == 0 {
		return nil
	}
	return q
}

// buildInstantiated returns a quantifier-free script for o, or "" when the
// obligation is not of a shape this tier handles.
func (x *X) buildInstantiated(o *Obligation) string {
	B := x.B
	cond, ok := x.skolemize(o.Cond)
	if !ok {
		return ""
	}
	goal := B.And(o.Guard, B.Not(cond))
	var qf []*Term
	var facts []*qfact
	for _, a := range x.assums[:o.NAssum] {
		t := B.Implies(a.Guard, a.Fact)
		if t.IsTrue() {
			continue
		}
		if hasQuant(t, map[*Term]bool{}) {
			if q := x.parseQFact(t); q != nil {
				facts = append(facts, q)
			}
			continue
		}
		qf = append(qf, t)
	}
	if len(facts) == 0 {
		return ""
	}
	idx := map[*Term]bool{}
	seen := map[*Term]bool{}
	x.selectIndices(goal, seen, idx)
	for _, t := range qf {
		x.selectIndices(t, seen, idx)
	}
	var insts []*Term
	done := map[[2]int]bool{}
	for round := 0; round < 2 && len(insts) < 1500; round++ {
		var order []*Term
		for g := range idx {
			order = append(order, g)
		}
		sort.Slice(order, func(i, j int) bool { return order[i].id < order[j].id })
		var fresh []*Term
		for fi, q := range facts {
			for _, off := range q.offs {
				for _, g := range order {
					val := B.Sub(g, off)
					key := [2]int{fi, val.id}
					if done[key] {
						continue
					}
					done[key] = true
					inst := B.Subst(q.body, map[*Term]*Term{q.v: val})
					for k := len(q.guards) - 1; k >= 0; k-- {
						inst = B.Implies(q.guards[k], inst)
					}
					if inst.IsTrue() {
						continue
					}
					insts = append(insts, inst)
					fresh = append(fresh, inst)
					if len(insts) >= 1500 {
						break
					}
				}
			}
		}
		for _, t := range fresh {
			x.selectIndices(t, seen, idx)
		}
	}
	asserts := append(append([]*Term{}, qf...), insts...)
	asserts = append(asserts, goal)
	return B.Script(asserts, "", false)
}
