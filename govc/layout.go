package main

// Type layout: every Go type is flattened into a vector of "leaves", each an
// SMT term of a simple sort. Values in registers, in cells and on the heap
// all use this flattening.

import (
	"fmt"
	"go/types"
	"math/big"
	"strings"
)

type Leaf struct {
	Path string     // e.g. ".Opts", ".Sums#len", "" for a scalar
	Sort *Sort      // SMT sort of this leaf
	T    types.Type // Go type of the leaf (for ranges / havoc-by-type)
	Role string     // "", "base","off","len","cap","tag","data","array"
	Owner string    // "pkg.Type.field" of the struct field this scalar leaf is (for field invariants)
}

type Layout struct {
	T      types.Type
	Leaves []Leaf
}

var layoutCache = map[types.Type]*Layout{}

func typeKey(t types.Type) string {
	return types.TypeString(t, func(p *types.Package) string { return p.Path() })
}

func shortTypeKey(t types.Type) string {
	return types.TypeString(t, func(p *types.Package) string {
		path := p.Path()
		path = strings.TrimPrefix(path, "github.com/gokrazy/rsync/internal/")
		if path == "github.com/gokrazy/rsync" {
			return "rsync"
		}
		path = strings.TrimPrefix(path, "github.com/gokrazy/rsync/")
		return path
	})
}

func isFlatArrayElem(t types.Type) bool {
	switch u := t.Underlying().(type) {
	case *types.Basic:
		return true
	case *types.Pointer, *types.Map, *types.Chan, *types.Signature:
		_ = u
		return true
	}
	return false
}

func scalarSort(t types.Type) *Sort {
	switch u := t.Underlying().(type) {
	case *types.Basic:
		info := u.Info()
		switch {
		case info&types.IsBoolean != 0:
			return BoolSort
		case info&types.IsInteger != 0:
			return IntSort
		case info&types.IsString != 0:
			return StrSort
		case info&types.IsFloat != 0, info&types.IsComplex != 0:
			return F64Sort
		case u.Kind() == types.UnsafePointer:
			return IntSort
		case u.Kind() == types.UntypedNil:
			return IntSort
		}
	case *types.Pointer, *types.Map, *types.Chan, *types.Signature:
		return IntSort
	}
	return nil
}

func LayoutOf(t types.Type) *Layout {
	if l, ok := layoutCache[t]; ok {
		return l
	}
	l := &Layout{T: t}
	layoutCache[t] = l // break recursion (recursive types go through pointers anyway)
	l.Leaves = computeLeaves(t)
	return l
}

func computeLeaves(t types.Type) []Leaf {
	if s := scalarSort(t); s != nil {
		return []Leaf{{Path: "", Sort: s, T: t}}
	}
	switch u := t.Underlying().(type) {
	case *types.Slice:
		return []Leaf{
			{Path: "#base", Sort: IntSort, T: t, Role: "base"},
			{Path: "#off", Sort: IntSort, T: t, Role: "off"},
			{Path: "#len", Sort: IntSort, T: t, Role: "len"},
			{Path: "#cap", Sort: IntSort, T: t, Role: "cap"},
		}
	case *types.Interface:
		return []Leaf{
			{Path: "#tag", Sort: IntSort, T: t, Role: "tag"},
			{Path: "#data", Sort: IntSort, T: t, Role: "data"},
		}
	case *types.Struct:
		var out []Leaf
		for i := 0; i < u.NumFields(); i++ {
			f := u.Field(i)
			for _, lf := range LayoutOf(f.Type()).Leaves {
				if lf.Path == "" && lf.Owner == "" {
					lf.Owner = shortTypeKey(t) + "." + f.Name()
				}
				lf.Path = "." + f.Name() + lf.Path
				out = append(out, lf)
			}
		}
		if len(out) == 0 {
			// empty struct: keep one dummy leaf so that values are non-empty
			out = append(out, Leaf{Path: "#empty", Sort: IntSort, T: t})
		}
		return out
	case *types.Array:
		es := scalarSort(u.Elem())
		if es != nil {
			return []Leaf{{Path: "", Sort: ArraySort(IntSort, es), T: t, Role: "array"}}
		}
		// arrays of aggregates: opaque
		return []Leaf{{Path: "#opaque", Sort: IntSort, T: t, Role: "opaque"}}
	case *types.Tuple:
		var out []Leaf
		for i := 0; i < u.Len(); i++ {
			for _, lf := range LayoutOf(u.At(i).Type()).Leaves {
				lf.Path = fmt.Sprintf("#%d%s", i, lf.Path)
				out = append(out, lf)
			}
		}
		return out
	case *types.TypeParam:
		return []Leaf{{Path: "#tp", Sort: IntSort, T: t}}
	}
	panic("layout: unsupported type " + t.String())
}

// fieldRange returns the [lo,hi) leaf index range of field i in struct type t.
func fieldRange(t types.Type, i int) (int, int) {
	st := t.Underlying().(*types.Struct)
	lo := 0
	for k := 0; k < i; k++ {
		lo += len(LayoutOf(st.Field(k).Type()).Leaves)
	}
	n := len(LayoutOf(st.Field(i).Type()).Leaves)
	if st.NumFields() == 0 {
		return 0, 1
	}
	return lo, lo + n
}

func tupleRange(t *types.Tuple, i int) (int, int) {
	lo := 0
	for k := 0; k < i; k++ {
		lo += len(LayoutOf(t.At(k).Type()).Leaves)
	}
	return lo, lo + len(LayoutOf(t.At(i).Type()).Leaves)
}

// intRange returns the value range of an integer type (linux/amd64).
func intRange(t types.Type) (lo, hi *big.Int, ok bool) {
	b, isB := t.Underlying().(*types.Basic)
	if !isB || b.Info()&types.IsInteger == 0 {
		return nil, nil, false
	}
	bits, signed := intBits(b)
	if signed {
		lo = new(big.Int).Neg(pow2(bits - 1))
		hi = new(big.Int).Sub(pow2(bits-1), big.NewInt(1))
	} else {
		lo = big.NewInt(0)
		hi = new(big.Int).Sub(pow2(bits), big.NewInt(1))
	}
	return lo, hi, true
}

func intBits(b *types.Basic) (uint, bool) {
	switch b.Kind() {
	case types.Int8:
		return 8, true
	case types.Int16:
		return 16, true
	case types.Int32:
		return 32, true
	case types.Int64, types.Int, types.UntypedInt, types.UntypedRune:
		return 64, true
	case types.Uint8:
		return 8, false
	case types.Uint16:
		return 16, false
	case types.Uint32:
		return 32, false
	case types.Uint64, types.Uint, types.Uintptr:
		return 64, false
	}
	return 64, true
}

// Value is a flattened symbolic value.
type Value struct {
	T types.Type
	L []*Term
}

func (v Value) One() *Term {
	if len(v.L) != 1 {
		panic(fmt.Sprintf("value of type %s has %d leaves, want 1", v.T, len(v.L)))
	}
	return v.L[0]
}

func (v Value) leaf(role string) *Term {
	for i, lf := range LayoutOf(v.T).Leaves {
		if lf.Role == role {
			return v.L[i]
		}
	}
	panic("no leaf with role " + role + " in " + v.T.String())
}

func (v Value) Field(i int) Value {
	lo, hi := fieldRange(v.T, i)
	st := v.T.Underlying().(*types.Struct)
	return Value{T: st.Field(i).Type(), L: v.L[lo:hi]}
}
