package main

import (
	"fmt"
	"go/token"
	"go/types"
	"math/big"
	"sort"
	"strings"
)

// State is the mutable symbolic store at a program point.
type State struct {
	heap  map[string]*Term
	gen   int
	pgen  map[string]int // per-prefix epochs (havoc of names not yet materialised)
	cells map[int]Value
}

func (s *State) clone() *State {
	n := &State{heap: make(map[string]*Term, len(s.heap)), gen: s.gen, cells: make(map[int]Value, len(s.cells)), pgen: make(map[string]int, len(s.pgen))}
	for k, v := range s.heap {
		n.heap[k] = v
	}
	for k, v := range s.pgen {
		n.pgen[k] = v
	}
	for k, v := range s.cells {
		n.cells[k] = v
	}
	return n
}

type LocKind int

const (
	LCell LocKind = iota
	LObj
	LElem
	LArr
	LBox
	LGlobal
)

// Loc is a resolved memory location (what a pointer points to).
type Loc struct {
	Kind LocKind
	Cell int
	Ref  *Term      // object ref / backing-array key / box ref
	Idx  *Term      // LElem: absolute element index
	T    types.Type // root type: struct (LObj), element type (LElem, LArr), boxed/cell/global type
	Path string     // leaf-path prefix below the root (interior pointers)
	Name string     // LGlobal
}

func (l *Loc) key() string {
	r, i := 0, 0
	if l.Ref != nil {
		r = l.Ref.id
	}
	if l.Idx != nil {
		i = l.Idx.id
	}
	t := ""
	if l.T != nil {
		t = typeKey(l.T)
	}
	return fmt.Sprintf("%d|%d|%d|%d|%s|%s|%s", l.Kind, l.Cell, r, i, t, l.Path, l.Name)
}

// Assumption is a fact assumed under a guard (path condition).
type Assumption struct {
	Guard *Term
	Fact  *Term
	Why   string
}

type Obligation struct {
	Name   string // stable identifier: <func>#<kind>[<detail>]@<ordinal>
	Kind   string
	Func   string // function under analysis
	Pos    string // source position (informational)
	Guard  *Term  // path condition
	Cond   *Term  // must hold under Guard and assumptions
	NAssum int    // number of assumptions visible (prefix of X.assums)
	Prop   []string
	Extra  map[string]string
}

// X is the execution context for one function under analysis.
type X struct {
	B        *TermBank
	W        *World
	assums   []Assumption
	obligs   []*Obligation
	heapSort map[string]*Sort
	ptrTable map[*Term]*Loc
	ptrMemo  map[string]*Term
	funcTab  map[*Term]*FuncVal
	nextCell int
	nextGen  int
	typed    map[int]bool // terms whose typing facts were already assumed
	strLits  map[string]*Term
	typeIDs  map[string]int
	warnings []string
	root     string // name of function under analysis
	counts   map[string]int
	inlineDepth int
	mode     *Mode
	ghostInit map[string]*Term
	knownIv   map[int][2]*big.Int
	rangeOf   map[*Term]Value
	boxed     map[*Term]Value
	typeByKey map[string]types.Type
	freshRefs []*Term
	paramRefs []*Term
	isFresh   map[*Term]bool
	boundCtr  int
	cellEscaped map[int]bool
	usedContracts map[string]*Contract
	unknownCalls  map[string]int
	rootAllows    []*Clause
	rootEnv       *Env
	rootModifies  []string
	untracked     map[string]bool
	inlineExternal map[string]bool
	prop     string
	requires []*Term
	retPC    *Term
	events   []callEvent
	unescaped map[*Term]bool // fresh objects whose address has not been stored in the heap
	neqMemo  map[[2]int]bool
	contained map[*Term][]*Term
	postEnv  *Env
	noWrap   bool
	noRetry  map[string]bool
	rootRets []retPoint
	atHits   map[*Clause]int
	also     []string
	crossCheck bool
	stale    []string // contract clauses that could not be evaluated against the current code
}

type retPoint struct {
	pc   *Term
	pos  string
	tpos token.Pos
}

// callEvent records the symbolic result of a call to a function that was
// not inlined (contract or unknown); replay uses it to rebuild peer input.
type callEvent struct {
	Guard *Term
	Name  string
	Vals  []*Term // flattened results
	Lens  []*Term // lengths of slice arguments
}

func NewX(w *World, root string, mode *Mode) *X {
	return &X{B: NewBank(), W: w, heapSort: map[string]*Sort{}, ptrTable: map[*Term]*Loc{}, ptrMemo: map[string]*Term{},
		funcTab: map[*Term]*FuncVal{}, typed: map[int]bool{}, strLits: map[string]*Term{}, typeIDs: map[string]int{},
		root: root, counts: map[string]int{}, mode: mode, ghostInit: map[string]*Term{}, knownIv: map[int][2]*big.Int{},
		rangeOf: map[*Term]Value{}, boxed: map[*Term]Value{}, typeByKey: map[string]types.Type{}, isFresh: map[*Term]bool{},
		cellEscaped: map[int]bool{}, usedContracts: map[string]*Contract{}, unknownCalls: map[string]int{},
		untracked: map[string]bool{"log": true, "conn": true, "stdout": true}, inlineExternal: map[string]bool{}, unescaped: map[*Term]bool{}, neqMemo: map[[2]int]bool{}, contained: map[*Term][]*Term{}}
}

// sortedCellIDs: deterministic iteration over a cell map.
func sortedCellIDs[V any](m map[int]V) []int {
	ids := make([]int, 0, len(m))
	for id := range m {
		ids = append(ids, id)
	}
	sort.Ints(ids)
	return ids
}

func (x *X) noteStale(msg string) {
	for _, s := range x.stale {
		if s == msg {
			return
		}
	}
	x.stale = append(x.stale, msg)
}

func (x *X) warn(format string, args ...interface{}) {
	msg := fmt.Sprintf(format, args...)
	for _, w := range x.warnings {
		if w == msg {
			return
		}
	}
	x.warnings = append(x.warnings, msg)
}

func (x *X) assume(guard, fact *Term, why string) {
	if fact.IsTrue() {
		return
	}
	if x.B.hasFreeBound(fact) || x.B.hasFreeBound(guard) {
		// a side fact about a term that lives under a quantifier: cannot be stated globally
		return
	}
	if fact.Op == "=>" && (fact.Args[1].Op == "and" || fact.Args[1].Op == "=>") {
		// (a ==> b && c) as (a ==> b), (a ==> c)
		x.assume(x.B.And(guard, fact.Args[0]), fact.Args[1], why)
		return
	}
	if fact.Op == "and" {
		// conjuncts separately: the quantifier-free relaxation then drops only the quantified ones
		for _, c := range fact.Args {
			x.assums = append(x.assums, Assumption{Guard: guard, Fact: c, Why: why})
		}
		return
	}
	x.assums = append(x.assums, Assumption{Guard: guard, Fact: fact, Why: why})
}

func (x *X) assumeGlobal(fact *Term, why string) { x.assume(x.B.True(), fact, why) }

func (x *X) oblige(kind, detail, pos string, guard, cond *Term) *Obligation {
	base := fmt.Sprintf("%s#%s[%s]", x.curFuncName(), kind, detail)
	x.counts[base]++
	name := base
	if x.counts[base] > 1 {
		name = fmt.Sprintf("%s@%d", base, x.counts[base])
	}
	o := &Obligation{Name: name, Kind: kind, Func: x.root, Pos: pos, Guard: guard, Cond: cond, NAssum: len(x.assums)}
	x.obligs = append(x.obligs, o)
	return o
}

// splitConjuncts replaces functional obligations whose condition is a
// conjunction by one obligation per conjunct (named <name>/<k>): each query is
// smaller and a failure names the conjunct.
func (x *X) splitConjuncts() {
	var out []*Obligation
	for _, o := range x.obligs {
		switch o.Kind {
		case "requires", "ensures", "assert", "inv-entry", "inv-preserved":
			if o.Cond.Op == "and" && len(o.Cond.Args) > 1 {
				for i, c := range o.Cond.Args {
					o2 := *o
					o2.Cond = c
					o2.Name = fmt.Sprintf("%s/%d", o.Name, i+1)
					out = append(out, &o2)
				}
				continue
			}
		}
		out = append(out, o)
	}
	x.obligs = out
}

var curFuncStack []string

func (x *X) curFuncName() string {
	if len(curFuncStack) == 0 {
		return x.root
	}
	return curFuncStack[len(curFuncStack)-1]
}

// ---- heap variables -------------------------------------------------------

func (x *X) epochFor(s *State, name string) int {
	e := 0
	if x.W.unstable(name) {
		e = s.gen
	}
	for p, g := range s.pgen {
		if g > e && strings.HasPrefix(name, p) {
			e = g
		}
	}
	return e
}

func (x *X) heapRead(s *State, name string, sort *Sort) *Term {
	if t, ok := s.heap[name]; ok {
		return t
	}
	if old, ok := x.heapSort[name]; ok && old != sort {
		panic(fmt.Sprintf("heap var %s used at sorts %s and %s", name, old, sort))
	}
	x.heapSort[name] = sort
	t := x.B.Const(fmt.Sprintf("%s@%d", name, x.epochFor(s, name)), sort)
	s.heap[name] = t
	return t
}

func (x *X) heapSet(s *State, name string, v *Term) {
	if old, ok := x.heapSort[name]; ok && old != v.Sort {
		panic(fmt.Sprintf("heap var %s set at sort %s, was %s", name, v.Sort, old))
	}
	x.heapSort[name] = v.Sort
	s.heap[name] = v
}

// havocAll forgets every heap variable (new epoch) except ghost state and
// the boxes of opaque pointers. Cells are untouched.
func (x *X) havocAll(s *State) {
	x.nextGen++
	s.gen = x.nextGen
	keep := map[string]*Term{}
	for k, v := range s.heap {
		if !x.W.unstable(k) {
			keep[k] = v
		}
	}
	s.heap = keep
	// per-prefix epochs of stable names must survive
	for p := range s.pgen {
		if x.W.unstable(p) {
			delete(s.pgen, p)
		}
	}
}

// havocNames forgets every heap variable whose name starts with one of the
// prefixes, including variables that have not been materialised yet.
func (x *X) havocNames(s *State, prefixes []string) {
	x.nextGen++
	for _, p := range prefixes {
		s.pgen[p] = x.nextGen
		for n := range s.heap {
			if strings.HasPrefix(n, p) {
				delete(s.heap, n)
			}
		}
	}
}

// ---- typing facts ---------------------------------------------------------

var maxLen = pow2(47)

func (x *X) typeFacts(t *Term, lf Leaf) {
	if t.Op == "int" || t.Op == "true" || t.Op == "false" {
		return
	}
	if x.typed[t.id] {
		return
	}
	x.typed[t.id] = true
	if x.B.hasBoundVar(t) {
		return
	}
	B := x.B
	// Typing facts are asserted without a path condition, so they may only be stated about
	// terms whose value does not depend on the path: symbols (parameters, results of calls,
	// heap variables of some epoch and reads from them, uninterpreted applications). For a
	// merged or updated value the facts are stated about its symbolic constituents; what a
	// computed value (say len-1 after s[1:]) satisfies follows from the path (the run-time
	// check that guards the operation is assumed after it).
	switch t.Op {
	case "const", "app":
	case "ite":
		x.typeFacts(t.Args[1], lf)
		x.typeFacts(t.Args[2], lf)
		return
	case "select":
		a, i := t.Args[0], t.Args[1]
		switch a.Op {
		case "store":
			x.typeFacts(B.Select(a.Args[0], i), lf)
			return
		case "ite":
			x.typeFacts(B.Select(a.Args[1], i), lf)
			x.typeFacts(B.Select(a.Args[2], i), lf)
			return
		case "select":
			// nested heap (E: spaces): select(select(H, base), idx)
			h := a.Args[0]
			switch h.Op {
			case "store":
				x.typeFacts(B.Select(B.Select(h.Args[0], a.Args[1]), i), lf)
				return
			case "ite":
				x.typeFacts(B.Select(B.Select(h.Args[1], a.Args[1]), i), lf)
				x.typeFacts(B.Select(B.Select(h.Args[2], a.Args[1]), i), lf)
				return
			case "const":
			default:
				return
			}
		case "const", "app":
		default:
			return
		}
	default:
		return
	}
	switch lf.Role {
	case "len", "off":
		x.assumeGlobal(B.And(B.Le(B.Int(0), t), B.Le(t, B.BigInt(maxLen))), "slice range")
		x.knownIv[t.id] = [2]*big.Int{big.NewInt(0), maxLen}
		return
	case "cap":
		x.knownIv[t.id] = [2]*big.Int{big.NewInt(0), maxLen}
		x.assumeGlobal(B.And(B.Le(B.Int(0), t), B.Le(t, B.BigInt(maxLen))), "slice range")
		return
	case "base", "data", "array", "opaque":
		return
	case "tag":
		x.assumeGlobal(B.Le(B.Int(0), t), "type tag")
		return
	}
	if lo, hi, ok := intRange(lf.T); ok && t.Sort == IntSort {
		x.assumeGlobal(B.And(B.Le(B.BigInt(lo), t), B.Le(t, B.BigInt(hi))), "int range")
		x.knownIv[t.id] = [2]*big.Int{lo, hi}
		return
	}
	if t.Sort == StrSort {
		x.strLenFacts(t)
	}
}

func (x *X) valueFacts(v Value) {
	lay := LayoutOf(v.T)
	for i, lf := range lay.Leaves {
		x.typeFacts(v.L[i], lf)
	}
	if it, ok := v.T.Underlying().(*types.Interface); ok && len(x.W.InterestingTypes) > 0 && !x.B.hasBoundVar(v.L[0]) && v.L[0].Op != "int" {
		key := -11*v.L[0].id - 5
		if !x.typed[key] {
			x.typed[key] = true
			for _, ct := range x.W.InterestingTypes {
				if !types.Implements(ct, it) {
					x.assumeGlobal(x.B.Neq(v.L[0], x.typeID(ct)), "dynamic type must implement the static interface type")
				}
			}
		}
	}
	// slice consistency len <= cap
	if _, ok := v.T.Underlying().(*types.Slice); ok {
		x.sliceFacts(v)
	}
	if st, ok := v.T.Underlying().(*types.Struct); ok {
		for i := 0; i < st.NumFields(); i++ {
			if _, ok := st.Field(i).Type().Underlying().(*types.Slice); ok {
				x.sliceFacts(v.Field(i))
			}
		}
	}
}

func (x *X) sliceFacts(v Value) {
	B := x.B
	ln, cp, off := v.L[2], v.L[3], v.L[1]
	if B.hasBoundVar(ln) || B.hasBoundVar(cp) || B.hasBoundVar(off) {
		return
	}
	key := -(ln.id*1000003 + cp.id)
	if x.typed[key] {
		return
	}
	x.typed[key] = true
	if !pathIndependent(ln) || !pathIndependent(cp) || !pathIndependent(off) {
		return // see typeFacts: only symbols get unguarded facts
	}
	x.assumeGlobal(B.And(B.Le(ln, cp), B.Le(B.Add(off, cp), B.BigInt(maxLen))), "slice len<=cap")
}

// pathIndependent: the term is a symbol or a read from a heap variable of some
// epoch (its typing does not depend on which path is being executed).
func pathIndependent(t *Term) bool {
	switch t.Op {
	case "int", "const", "app":
		return true
	case "select":
		a := t.Args[0]
		if a.Op == "const" || a.Op == "app" {
			return true
		}
		if a.Op == "select" && (a.Args[0].Op == "const" || a.Args[0].Op == "app") {
			return true
		}
	}
	return false
}

func (x *X) strLen(t *Term) *Term {
	d := x.B.DeclFunc("strlen", []*Sort{StrSort}, IntSort)
	return x.B.App(d, t)
}

func (x *X) strLenFacts(t *Term) {
	if x.B.hasBoundVar(t) {
		return
	}
	l := x.strLen(t)
	if x.typed[l.id] {
		return
	}
	x.typed[l.id] = true
	x.assumeGlobal(x.B.And(x.B.Le(x.B.Int(0), l), x.B.Le(l, x.B.BigInt(maxLen))), "strlen range")
}

func (x *X) strLit(s string) *Term {
	if t, ok := x.strLits[s]; ok {
		return t
	}
	t := x.B.Const(fmt.Sprintf("strlit!%d", len(x.strLits)), StrSort)
	x.strLits[s] = t
	x.assumeGlobal(x.B.Eq(x.strLen(t), x.B.Int(int64(len(s)))), "string literal length")
	// distinct from all earlier literals
	var olds []string
	for o := range x.strLits {
		olds = append(olds, o)
	}
	sort.Strings(olds)
	for _, o := range olds {
		if o != s {
			x.assumeGlobal(x.B.Neq(t, x.strLits[o]), "distinct string literals")
		}
	}
	var spn []string
	for n := range x.W.Specs.StrPreds {
		spn = append(spn, n)
	}
	sort.Strings(spn)
	for _, n := range spn {
		sp := x.W.Specs.StrPreds[n]
		x.assumeGlobal(x.B.Eq(x.strPredApp(sp, t), x.B.Bool(sp.Eval(s))), "string predicate on literal")
	}
	// byte contents for short literals
	if len(s) <= 16 {
		for i := 0; i < len(s); i++ {
			x.assumeGlobal(x.B.Eq(x.strAt(t, x.B.Int(int64(i))), x.B.Int(int64(s[i]))), "string literal byte")
		}
	}
	return t
}

func (x *X) strPredApp(sp *StrPred, t *Term) *Term {
	d := x.B.DeclFunc("strpred$"+sp.Name, []*Sort{StrSort}, BoolSort)
	return x.B.App(d, t)
}

func (x *X) strAt(s, i *Term) *Term {
	d := x.B.DeclFunc("strat", []*Sort{StrSort, IntSort}, IntSort)
	t := x.B.App(d, s, i)
	if !x.typed[t.id] && !x.B.hasBoundVar(t) {
		x.typed[t.id] = true
		x.assumeGlobal(x.B.And(x.B.Le(x.B.Int(0), t), x.B.Le(t, x.B.Int(255))), "byte range")
	}
	return t
}

func (x *X) typeID(t types.Type) *Term {
	if b, ok := t.(*types.Basic); ok && b.Kind() < types.UntypedBool {
		t = types.Typ[b.Kind()] // byte is uint8, rune is int32: one dynamic type, one id
	}
	k := typeKey(t)
	id, ok := x.typeIDs[k]
	if !ok {
		// stable id: position in sorted order is not needed; ids only need be distinct and > 0
		id = len(x.typeIDs) + 1
		x.typeIDs[k] = id
		x.typeByKey[k] = t
	}
	return x.B.Int(int64(id))
}

// ---- fresh / zero values --------------------------------------------------

func (x *X) freshValue(t types.Type, prefix string) Value {
	lay := LayoutOf(t)
	v := Value{T: t, L: make([]*Term, len(lay.Leaves))}
	for i, lf := range lay.Leaves {
		v.L[i] = x.B.Fresh(prefix+lf.Path, lf.Sort)
	}
	x.valueFacts(v)
	return v
}

func (x *X) zeroValue(t types.Type) Value {
	lay := LayoutOf(t)
	v := Value{T: t, L: make([]*Term, len(lay.Leaves))}
	for i, lf := range lay.Leaves {
		v.L[i] = x.zeroLeaf(lf)
	}
	return v
}

func (x *X) zeroLeaf(lf Leaf) *Term {
	B := x.B
	switch lf.Sort {
	case BoolSort:
		return B.False()
	case IntSort:
		return B.Int(0)
	case StrSort:
		return x.strLit("")
	case F64Sort:
		return B.Const("f64zero", F64Sort)
	}
	if lf.Sort.Kind == SArray && lf.Sort.V == IntSort {
		return B.Const("zeroarr_int", lf.Sort) // all-zero array, axiomatised lazily
	}
	if lf.Sort.Kind == SArray && lf.Sort.V == BoolSort {
		return B.Const("zeroarr_bool", lf.Sort)
	}
	if lf.Sort.Kind == SArray && lf.Sort.V == StrSort {
		return B.Const("zeroarr_str", lf.Sort)
	}
	return B.Fresh("zero", lf.Sort)
}

// zero array axioms are emitted as quantified assumptions when used.
func (x *X) zeroArrayAxioms() []*Term {
	B := x.B
	var out []*Term
	i := B.BoundVar("zi", IntSort)
	if _, ok := B.consts["zeroarr_int"]; ok {
		out = append(out, B.Forall([]*Term{i}, B.Eq(B.Select(B.Const("zeroarr_int", ArraySort(IntSort, IntSort)), i), B.Int(0))))
	}
	if _, ok := B.consts["zeroarr_str"]; ok {
		out = append(out, B.Forall([]*Term{i}, B.Eq(B.Select(B.Const("zeroarr_str", ArraySort(IntSort, StrSort)), i), x.strLit(""))))
	}
	if _, ok := B.consts["zeroarr_bool"]; ok {
		out = append(out, B.Forall([]*Term{i}, B.Not(B.Select(B.Const("zeroarr_bool", ArraySort(IntSort, BoolSort)), i))))
	}
	return out
}

// ---- pointers -------------------------------------------------------------

func (x *X) ptrOf(l *Loc) *Term {
	switch l.Kind {
	case LObj:
		if l.Path == "" {
			return l.Ref
		}
	case LArr, LBox:
		if l.Path == "" {
			return l.Ref
		}
	}
	k := l.key()
	if t, ok := x.ptrMemo[k]; ok {
		return t
	}
	t := x.B.Fresh("ptr", IntSort)
	x.assumeGlobal(x.B.Neq(t, x.B.Int(0)), "interior pointer non-nil")
	x.ptrMemo[k] = t
	x.ptrTable[t] = l
	return t
}

func (x *X) locOf(p *Term, pointee types.Type) *Loc {
	if l, ok := x.ptrTable[p]; ok {
		return l
	}
	switch u := pointee.Underlying().(type) {
	case *types.Struct:
		return &Loc{Kind: LObj, Ref: p, T: pointee}
	case *types.Array:
		return &Loc{Kind: LArr, Ref: p, T: u.Elem()}
	}
	return &Loc{Kind: LBox, Ref: p, T: pointee}
}

func heapTypeName(t types.Type) string { return shortTypeKey(t) }

func (x *X) subKey(l *Loc, leafPath string) *Term {
	switch l.Kind {
	case LObj:
		d := x.B.DeclFunc("sub$"+heapTypeName(l.T)+leafPath, []*Sort{IntSort}, IntSort)
		return x.B.App(d, l.Ref)
	case LElem:
		d := x.B.DeclFunc("sube$"+heapTypeName(l.T)+leafPath, []*Sort{IntSort, IntSort}, IntSort)
		return x.B.App(d, l.Ref, l.Idx)
	}
	panic("subKey on " + fmt.Sprint(l.Kind))
}

func arrayElemType(t types.Type) types.Type {
	return t.Underlying().(*types.Array).Elem()
}

// loadLeaf / storeLeaf access one leaf of the pointee at location l.
func (x *X) loadLeaf(s *State, l *Loc, lf Leaf) *Term {
	B := x.B
	path := l.Path + lf.Path
	switch l.Kind {
	case LObj:
		if lf.Role == "array" {
			et := arrayElemType(lf.T)
			h := x.heapRead(s, "E:"+heapTypeName(et), ArraySort(IntSort, lf.Sort))
			return B.Select(h, x.subKey(l, path))
		}
		h := x.heapRead(s, "F:"+heapTypeName(l.T)+path, ArraySort(IntSort, lf.Sort))
		return B.Select(h, l.Ref)
	case LElem:
		if lf.Role == "array" {
			et := arrayElemType(lf.T)
			h := x.heapRead(s, "E:"+heapTypeName(et), ArraySort(IntSort, lf.Sort))
			return B.Select(h, x.subKey(l, path))
		}
		h := x.heapRead(s, "E:"+heapTypeName(l.T)+path, ArraySort(IntSort, ArraySort(IntSort, lf.Sort)))
		return B.Select(B.Select(h, l.Ref), l.Idx)
	case LArr:
		// whole array value
		h := x.heapRead(s, "E:"+heapTypeName(l.T), ArraySort(IntSort, lf.Sort))
		return B.Select(h, l.Ref)
	case LBox:
		h := x.heapRead(s, "B:"+heapTypeName(l.T)+path, ArraySort(IntSort, lf.Sort))
		return B.Select(h, l.Ref)
	case LGlobal:
		return x.heapRead(s, "G:"+l.Name+path, lf.Sort)
	}
	panic("loadLeaf: bad loc")
}

func (x *X) storeLeaf(s *State, l *Loc, lf Leaf, v *Term) {
	B := x.B
	path := l.Path + lf.Path
	switch l.Kind {
	case LObj:
		if lf.Role == "array" {
			et := arrayElemType(lf.T)
			n := "E:" + heapTypeName(et)
			h := x.heapRead(s, n, ArraySort(IntSort, lf.Sort))
			x.heapSet(s, n, B.Store(h, x.subKey(l, path), v))
			return
		}
		n := "F:" + heapTypeName(l.T) + path
		h := x.heapRead(s, n, ArraySort(IntSort, lf.Sort))
		x.heapSet(s, n, B.Store(h, l.Ref, v))
	case LElem:
		if lf.Role == "array" {
			et := arrayElemType(lf.T)
			n := "E:" + heapTypeName(et)
			h := x.heapRead(s, n, ArraySort(IntSort, lf.Sort))
			x.heapSet(s, n, B.Store(h, x.subKey(l, path), v))
			return
		}
		n := "E:" + heapTypeName(l.T) + path
		h := x.heapRead(s, n, ArraySort(IntSort, ArraySort(IntSort, lf.Sort)))
		inner := B.Select(h, l.Ref)
		x.heapSet(s, n, B.Store(h, l.Ref, B.Store(inner, l.Idx, v)))
	case LArr:
		n := "E:" + heapTypeName(l.T)
		h := x.heapRead(s, n, ArraySort(IntSort, lf.Sort))
		x.heapSet(s, n, B.Store(h, l.Ref, v))
	case LBox:
		n := "B:" + heapTypeName(l.T) + path
		h := x.heapRead(s, n, ArraySort(IntSort, lf.Sort))
		x.heapSet(s, n, B.Store(h, l.Ref, v))
	case LGlobal:
		x.heapSet(s, "G:"+l.Name+path, v)
	default:
		panic("storeLeaf: bad loc")
	}
}

// load reads a value of type t from location l.
func (x *X) load(s *State, l *Loc, t types.Type) Value {
	if l.Kind == LCell {
		v, ok := s.cells[l.Cell]
		if !ok {
			// the cell was allocated on a path that cannot lead here
			// (e.g. a deferred closure registered on another branch)
			return x.freshValue(t, "deadcell")
		}
		if l.Path != "" {
			panic("cell with path")
		}
		return v
	}
	lay := LayoutOf(t)
	v := Value{T: t, L: make([]*Term, len(lay.Leaves))}
	for i, lf := range lay.Leaves {
		v.L[i] = x.loadLeaf(s, l, lf)
		if len(x.unescaped) > 0 && lf.Sort == IntSort && pointerLike(lf) && !x.B.hasBoundVar(v.L[i]) {
			// a pointer read from the heap cannot be an object whose address was never stored there
			var urs []*Term
			for r := range x.unescaped {
				urs = append(urs, r)
			}
			sort.Slice(urs, func(a, b int) bool { return urs[a].id < urs[b].id })
			for _, r := range urs {
				k := [2]int{v.L[i].id, r.id}
				if v.L[i] != r && !x.neqMemo[k] && !v.L[i].IsLit() {
					x.neqMemo[k] = true
					// (a "fresh" result of a contract may be nil on its error path)
					x.assumeGlobal(x.B.Or(x.B.Eq(r, x.B.Int(0)), x.B.Neq(v.L[i], r)), "heap-loaded pointer differs from unescaped fresh object")
				}
			}
		}
		if len(x.W.Specs.FieldInv) > 0 {
			if owner := ownerOf(l, lf); owner != "" {
				if inv, ok := x.W.Specs.FieldInv[owner]; ok && !x.typed[-7*v.L[i].id-3] && !x.B.hasBoundVar(v.L[i]) {
					x.typed[-7*v.L[i].id-3] = true
					x.assumeGlobal(x.evalFieldInv(inv, v.L[i]), "field invariant "+owner)
				}
			}
		}
	}
	x.valueFacts(v)
	return v
}

func (x *X) evalFieldInv(inv *Axiom, v *Term) *Term {
	env := &Env{x: x, vars: map[string]SV{"v": svTerm(v)}}
	var t *Term
	if err := safeEval(func() { t = env.Bool(inv.Expr) }); err != nil {
		panic(stopExec{"fieldinv " + inv.Name + ": " + err.Error()})
	}
	return t
}

// ownerOf finds "pkg.Type.field" for a scalar leaf stored at l.
func ownerOf(l *Loc, lf Leaf) string {
	if lf.Owner != "" {
		return lf.Owner
	}
	if l.T == nil || (l.Kind != LObj && l.Kind != LElem && l.Kind != LGlobal) {
		return ""
	}
	if _, ok := l.T.Underlying().(*types.Struct); !ok {
		return ""
	}
	full := l.Path + lf.Path
	for _, rl := range LayoutOf(l.T).Leaves {
		if rl.Path == full {
			return rl.Owner
		}
	}
	return ""
}

// fieldInvObligations: a store of value v at l must keep field invariants.
func (x *X) fieldInvObligations(l *Loc, v Value, pc *Term, pos string) {
	if len(x.W.Specs.FieldInv) == 0 || !(x.mode.Sweep || x.mode.Functional) {
		return
	}
	for i, lf := range LayoutOf(v.T).Leaves {
		owner := ownerOf(l, lf)
		if owner == "" {
			continue
		}
		if inv, ok := x.W.Specs.FieldInv[owner]; ok {
			x.oblige("fieldinv", owner, pos, pc, x.evalFieldInv(inv, v.L[i]))
		}
	}
}

func pointerLike(lf Leaf) bool {
	if lf.Role == "base" || lf.Role == "data" {
		return true
	}
	if lf.Role != "" {
		return false
	}
	switch lf.T.Underlying().(type) {
	case *types.Pointer, *types.Map, *types.Chan:
		return true
	}
	return false
}

func (x *X) markEscaped(v Value) {
	if len(x.unescaped) == 0 {
		return
	}
	for _, t := range v.L {
		x.escapeRef(t)
	}
}

func (x *X) escapeRef(t *Term) {
	if !x.unescaped[t] {
		return
	}
	delete(x.unescaped, t)
	for _, c := range x.contained[t] {
		x.escapeRef(c)
	}
}

func (x *X) store(s *State, l *Loc, v Value) {
	if l.Kind == LCell {
		s.cells[l.Cell] = v
		return
	}
	if l.Ref != nil && x.unescaped[l.Ref] {
		// stored into an object that is itself not reachable from the heap
		for _, t := range v.L {
			if x.unescaped[t] {
				x.contained[l.Ref] = append(x.contained[l.Ref], t)
			}
		}
	} else {
		x.markEscaped(v)
	}
	lay := LayoutOf(v.T)
	for i, lf := range lay.Leaves {
		x.storeLeaf(s, l, lf, v.L[i])
	}
	if l.Kind == LBox {
		// a store through a pointer of unknown provenance may alias any
		// memory of the same type
		x.havocByType(s, l.T, "store through opaque pointer")
	}
}

// havocByType forgets every heap variable whose leaf Go type is identical to t.
func (x *X) havocByType(s *State, t types.Type, why string) {
	x.warn("havoc by type %s (%s)", shortTypeKey(t), why)
	boxes := map[string]*Term{}
	for k, v := range s.heap {
		if strings.HasPrefix(k, "B:") {
			boxes[k] = v
		}
	}
	x.havocAll(s)
	for k, v := range boxes {
		s.heap[k] = v
	}
	for _, id := range sortedCellIDs(s.cells) {
		v := s.cells[id]
		if x.cellEscaped[id] && types.Identical(v.T, t) {
			s.cells[id] = x.freshValue(v.T, "cell")
		}
	}
}

// ---- merging --------------------------------------------------------------

func (x *X) mergeStates(conds []*Term, states []*State) *State {
	if len(states) == 1 {
		return states[0].clone()
	}
	out := &State{heap: map[string]*Term{}, cells: map[int]Value{}, pgen: map[string]int{}}
	sameGen := true
	for _, s := range states[1:] {
		if s.gen != states[0].gen {
			sameGen = false
		}
	}
	if sameGen {
		out.gen = states[0].gen
	} else {
		x.nextGen++
		out.gen = x.nextGen
	}
	// per-prefix epochs: equal in all states -> keep, otherwise a new epoch
	prefixes := map[string]bool{}
	for _, s := range states {
		for p := range s.pgen {
			prefixes[p] = true
		}
	}
	var plist []string
	for p := range prefixes {
		plist = append(plist, p)
	}
	sort.Strings(plist)
	for _, p := range plist {
		same := true
		v0, ok0 := states[0].pgen[p]
		for _, s := range states[1:] {
			v, ok := s.pgen[p]
			if ok != ok0 || v != v0 {
				same = false
			}
		}
		if same && ok0 {
			out.pgen[p] = v0
		} else {
			x.nextGen++
			out.pgen[p] = x.nextGen
		}
	}
	names := map[string]bool{}
	for _, s := range states {
		for k := range s.heap {
			names[k] = true
		}
	}
	var ns []string
	for k := range names {
		ns = append(ns, k)
	}
	sort.Strings(ns)
	for _, n := range ns {
		srt := x.heapSort[n]
		var cur *Term
		for i := len(states) - 1; i >= 0; i-- {
			v := x.heapRead(states[i], n, srt)
			if cur == nil {
				cur = v
			} else {
				cur = x.B.Ite(conds[i], v, cur)
			}
		}
		out.heap[n] = cur
	}
	ids := map[int]bool{}
	for _, s := range states {
		for k := range s.cells {
			ids[k] = true
		}
	}
	for _, id := range sortedCellIDs(ids) {
		var cur *Value
		for i := len(states) - 1; i >= 0; i-- {
			v, ok := states[i].cells[id]
			if !ok {
				continue
			}
			if cur == nil {
				vv := v
				cur = &vv
			} else {
				m := x.iteValue(conds[i], v, *cur)
				cur = &m
			}
		}
		out.cells[id] = *cur
	}
	return out
}

func (x *X) iteValue(c *Term, a, b Value) Value {
	if len(a.L) != len(b.L) {
		panic(fmt.Sprintf("iteValue: shape mismatch %s vs %s", a.T, b.T))
	}
	out := Value{T: a.T, L: make([]*Term, len(a.L))}
	for i := range a.L {
		out.L[i] = x.B.Ite(c, a.L[i], b.L[i])
		if out.L[i] != a.L[i] && out.L[i] != b.L[i] && a.L[i].Sort == IntSort {
			// propagate pointer / function identity through ite when both sides agree
			if la, ok := x.ptrTable[a.L[i]]; ok {
				if lb, ok2 := x.ptrTable[b.L[i]]; ok2 && la.key() == lb.key() {
					x.ptrTable[out.L[i]] = la
				}
			}
		}
	}
	return out
}

// ---- wrap-around arithmetic ----------------------------------------------

func (x *X) wrap(t *Term, typ types.Type) *Term {
	b, ok := typ.Underlying().(*types.Basic)
	if !ok {
		return t
	}
	bits, signed := intBits(b)
	return x.wrapBits(t, bits, signed)
}

func (x *X) wrapBits(t *Term, bits uint, signed bool) *Term {
	B := x.B
	m := pow2(bits)
	if lo, hi, ok := x.interval(t); ok {
		var tlo, thi *big.Int
		if signed {
			tlo = new(big.Int).Neg(pow2(bits - 1))
			thi = new(big.Int).Sub(pow2(bits-1), big.NewInt(1))
		} else {
			tlo = big.NewInt(0)
			thi = new(big.Int).Sub(m, big.NewInt(1))
		}
		if lo.Cmp(tlo) >= 0 && hi.Cmp(thi) <= 0 {
			return t
		}
	}
	if signed {
		h := pow2(bits - 1)
		return B.Sub(B.Mod(B.Add(t, B.BigInt(h)), B.BigInt(m)), B.BigInt(h))
	}
	return B.Mod(t, B.BigInt(m))
}

// interval is a cheap syntactic interval analysis used to drop wraps.
func (x *X) interval(t *Term) (lo, hi *big.Int, ok bool) {
	return x.intervalDepth(t, 0)
}

func (x *X) intervalDepth(t *Term, d int) (lo, hi *big.Int, ok bool) {
	if d > 12 {
		return nil, nil, false
	}
	switch t.Op {
	case "int":
		return t.Val, t.Val, true
	case "+":
		lo, hi = new(big.Int), new(big.Int)
		for _, a := range t.Args {
			l, h, ok := x.intervalDepth(a, d+1)
			if !ok {
				return nil, nil, false
			}
			lo.Add(lo, l)
			hi.Add(hi, h)
		}
		return lo, hi, true
	case "-":
		l1, h1, ok1 := x.intervalDepth(t.Args[0], d+1)
		l2, h2, ok2 := x.intervalDepth(t.Args[1], d+1)
		if !ok1 || !ok2 {
			return nil, nil, false
		}
		return new(big.Int).Sub(l1, h2), new(big.Int).Sub(h1, l2), true
	case "*":
		l1, h1, ok1 := x.intervalDepth(t.Args[0], d+1)
		l2, h2, ok2 := x.intervalDepth(t.Args[1], d+1)
		if !ok1 || !ok2 {
			return nil, nil, false
		}
		c := []*big.Int{new(big.Int).Mul(l1, l2), new(big.Int).Mul(l1, h2), new(big.Int).Mul(h1, l2), new(big.Int).Mul(h1, h2)}
		lo, hi = c[0], c[0]
		for _, v := range c[1:] {
			if v.Cmp(lo) < 0 {
				lo = v
			}
			if v.Cmp(hi) > 0 {
				hi = v
			}
		}
		return lo, hi, true
	case "mod":
		if t.Args[1].IsLit() && t.Args[1].Val.Sign() > 0 {
			return big.NewInt(0), new(big.Int).Sub(t.Args[1].Val, big.NewInt(1)), true
		}
	case "div":
		if t.Args[1].IsLit() && t.Args[1].Val.Sign() > 0 {
			l, h, ok := x.intervalDepth(t.Args[0], d+1)
			if ok {
				q1, q2 := new(big.Int), new(big.Int)
				m := new(big.Int)
				q1.DivMod(l, t.Args[1].Val, m)
				q2.DivMod(h, t.Args[1].Val, m)
				return q1, q2, true
			}
		}
	case "ite":
		l1, h1, ok1 := x.intervalDepth(t.Args[1], d+1)
		l2, h2, ok2 := x.intervalDepth(t.Args[2], d+1)
		if ok1 && ok2 {
			lo, hi = l1, h1
			if l2.Cmp(lo) < 0 {
				lo = l2
			}
			if h2.Cmp(hi) > 0 {
				hi = h2
			}
			return lo, hi, true
		}
	}
	if iv, ok := x.knownIv[t.id]; ok {
		return iv[0], iv[1], true
	}
	return nil, nil, false
}
