package main

import (
	"bytes"
	"context"
	"fmt"
	"os"
	"os/exec"
	"path/filepath"
	"strings"
	"sync"
	"time"
)

type SolveResult struct {
	Status  string // "unsat", "sat", "unknown", "timeout", "error"
	Solver  string
	Seconds float64
	Model   map[string]string // constant name -> value text (scalars only)
	Raw     string
}

type solverSpec struct {
	name string
	args func(file string, timeout time.Duration) []string
}

var solvers = []solverSpec{
	{"z3-new", func(f string, t time.Duration) []string {
		return []string{"z3-new", fmt.Sprintf("-T:%d", int(t.Seconds())+1), f}
	}},
	{"z3", func(f string, t time.Duration) []string {
		return []string{"z3", fmt.Sprintf("-T:%d", int(t.Seconds())+1), f}
	}},
	{"cvc5", func(f string, t time.Duration) []string {
		return []string{"cvc5", fmt.Sprintf("--tlimit=%d", t.Milliseconds()), "--produce-models", f}
	}},
}

var scratchDir string
var scratchOnce sync.Once

func scratch() string {
	scratchOnce.Do(func() {
		base := os.Getenv("VERIF_SCRATCH")
		if base == "" {
			base = "/var/tmp/verif-scratch"
		}
		os.MkdirAll(base, 0o755)
		d, err := os.MkdirTemp(base, "q")
		if err != nil {
			panic(err)
		}
		scratchDir = d
	})
	return scratchDir
}

func cleanupScratch() {
	if scratchDir != "" {
		os.RemoveAll(scratchDir)
	}
}

func runOne(ctx context.Context, sp solverSpec, file string, timeout time.Duration) SolveResult {
	start := time.Now()
	cctx, cancel := context.WithTimeout(ctx, timeout+2*time.Second)
	defer cancel()
	args := sp.args(file, timeout)
	cmd := exec.CommandContext(cctx, args[0], args[1:]...)
	var out bytes.Buffer
	cmd.Stdout = &out
	cmd.Stderr = &out
	cmd.Run()
	res := SolveResult{Solver: sp.name, Seconds: time.Since(start).Seconds(), Raw: out.String()}
	first := strings.TrimSpace(strings.SplitN(out.String(), "\n", 2)[0])
	switch {
	case first == "unsat":
		res.Status = "unsat"
	case first == "sat":
		res.Status = "sat"
		res.Model = parseModel(out.String())
	case first == "unknown":
		res.Status = "unknown"
	case strings.Contains(first, "timeout") || strings.Contains(out.String(), "interrupted by timeout") || cctx.Err() != nil:
		res.Status = "timeout"
	default:
		res.Status = "error"
	}
	return res
}

// Solve runs the script on the portfolio: first z3-new alone for a short
// slice, then all solvers in parallel; the first definite answer wins.
func Solve(script string, name string, timeout time.Duration) SolveResult {
	file := filepath.Join(scratch(), sanitize(name)+".smt2")
	if len(file) > 200 {
		file = file[:200] + ".smt2"
	}
	if err := os.WriteFile(file, []byte(script), 0o644); err != nil {
		return SolveResult{Status: "error", Raw: err.Error()}
	}
	defer os.Remove(file)
	first := 3 * time.Second
	if first > timeout {
		first = timeout
	}
	r := runOne(context.Background(), solvers[0], file, first)
	if r.Status == "unsat" || r.Status == "sat" {
		return r
	}
	ctx, cancel := context.WithCancel(context.Background())
	defer cancel()
	ch := make(chan SolveResult, len(solvers))
	for _, sp := range solvers {
		sp := sp
		go func() { ch <- runOne(ctx, sp, file, timeout) }()
	}
	var last SolveResult = r
	for range solvers {
		rr := <-ch
		if rr.Status == "unsat" || rr.Status == "sat" {
			return rr
		}
		if rr.Status != "error" || last.Status == "" {
			last = rr
		}
	}
	return last
}

// parseModel extracts (define-fun name () Sort value) entries with scalar
// values from a z3/cvc5 model.
func parseModel(out string) map[string]string {
	m := map[string]string{}
	idx := strings.Index(out, "\n")
	if idx < 0 {
		return m
	}
	toks := tokenize(out[idx+1:])
	pos := 0
	var parse func() interface{}
	parse = func() interface{} {
		if pos >= len(toks) {
			return nil
		}
		t := toks[pos]
		pos++
		if t == "(" {
			var l []interface{}
			for pos < len(toks) && toks[pos] != ")" {
				l = append(l, parse())
			}
			pos++
			return l
		}
		return t
	}
	top := parse()
	l, ok := top.([]interface{})
	if !ok {
		return m
	}
	for _, e := range l {
		d, ok := e.([]interface{})
		if !ok || len(d) < 5 {
			continue
		}
		if s, _ := d[0].(string); s != "define-fun" {
			continue
		}
		name, _ := d[1].(string)
		if args, ok := d[2].([]interface{}); !ok || len(args) != 0 {
			continue
		}
		m[name] = sexprString(d[4])
	}
	return m
}

func sexprString(e interface{}) string {
	switch v := e.(type) {
	case string:
		return v
	case []interface{}:
		if len(v) == 2 {
			if s, _ := v[0].(string); s == "-" {
				return "-" + sexprString(v[1])
			}
		}
		var parts []string
		for _, x := range v {
			parts = append(parts, sexprString(x))
		}
		return "(" + strings.Join(parts, " ") + ")"
	}
	return ""
}

func tokenize(s string) []string {
	var toks []string
	i := 0
	for i < len(s) {
		c := s[i]
		switch {
		case c == '(' || c == ')':
			toks = append(toks, string(c))
			i++
		case c == ' ' || c == '\n' || c == '\t' || c == '\r':
			i++
		case c == ';':
			for i < len(s) && s[i] != '\n' {
				i++
			}
		case c == '"':
			j := i + 1
			for j < len(s) && s[j] != '"' {
				j++
			}
			toks = append(toks, s[i:min(j+1, len(s))])
			i = j + 1
		case c == '|':
			j := i + 1
			for j < len(s) && s[j] != '|' {
				j++
			}
			toks = append(toks, s[i:min(j+1, len(s))])
			i = j + 1
		default:
			j := i
			for j < len(s) && !strings.ContainsRune("() \n\t\r", rune(s[j])) {
				j++
			}
			toks = append(toks, s[i:j])
			i = j
		}
	}
	return toks
}

// SolveWith runs the script on one named solver (cross-checks in the thorough tier).
func SolveWith(solver, script, name string, timeout time.Duration) SolveResult {
	file := filepath.Join(scratch(), sanitize(name)+"_x.smt2")
	if len(file) > 200 {
		file = file[:200] + "_x.smt2"
	}
	if err := os.WriteFile(file, []byte(script), 0o644); err != nil {
		return SolveResult{Status: "error", Raw: err.Error()}
	}
	defer os.Remove(file)
	for _, sp := range solvers {
		if sp.name == solver {
			return runOne(context.Background(), sp, file, timeout)
		}
	}
	return SolveResult{Status: "error", Raw: "no such solver " + solver}
}
