package main

// Forward symbolic execution of go/ssa functions with state merging at join
// points (passive form): loops are cut at their headers with an invariant.

import (
	"os"
	"fmt"
	"go/ast"
	"go/constant"
	"go/token"
	"go/types"
	"math/big"
	"sort"
	"strings"

	"golang.org/x/tools/go/ssa"
)

type Mode struct {
	Sweep      bool // runtime-panic / exit obligations
	Effects    bool // effect obligations
	Functional bool // requires / ensures / invariants / frame
	Props      []string
}

type FuncVal struct {
	Fn   *ssa.Function
	Bind []Value
}

type deferred struct {
	block *ssa.BasicBlock
	guard *Term
	call  *ssa.CallCommon
	args  []Value // evaluated at defer time (receiver first for invoke)
	fnv   Value
	pos   token.Pos
}

type retInfo struct {
	pc    *Term
	state *State
	vals  []Value
	pos   string
}

type edgeInfo struct {
	pc    *Term
	state *State
}

type Frame struct {
	x        *X
	fn       *ssa.Function
	vals     map[ssa.Value]Value
	bind     []Value
	li       *LoopInfo
	edges    map[[2]int]*edgeInfo
	defers   []deferred
	contract *Contract
	entry    *State
	rets     []retInfo
	depth    int
	params   []Value
	dbg      map[string][]dbgRef
	allocs   map[string][]*ssa.Alloc
	curBlock *ssa.BasicBlock
	isRoot   bool
	loopEntry map[*ssa.BasicBlock]*State
	inDefer  bool
	autoInv  map[*ssa.BasicBlock][]autoInv
	atCount  map[string]int
	cbOnce   bool
	// cbRehavoc re-applies the frame of the contract whose callbacks are being run (see preserves)
	cbRehavoc func(*State)
}

type autoInv struct {
	phi   *ssa.Phi
	dir   int // +1: phi >= bound, -1: phi <= bound, +2: phi < bound, +3: phi <= bound (guard pattern)
	bound *Term
}

// guardBound recognises the range-loop shape: the header computes
// next = phi+c and branches on next < Y (or <=) with Y defined outside the
// loop, and every back edge carries next. Then phi < Y is invariant.
func guardBound(phi *ssa.Phi, lp *Loop, li *LoopInfo) (ssa.Value, int) {
	b := phi.Block()
	ifi, ok := b.Instrs[len(b.Instrs)-1].(*ssa.If)
	if !ok {
		return nil, 0
	}
	cmp, ok := ifi.Cond.(*ssa.BinOp)
	if !ok || (cmp.Op != token.LSS && cmp.Op != token.LEQ) {
		return nil, 0
	}
	// body must be the true successor and inside the loop
	if !lp.Blocks[b.Succs[0]] {
		return nil, 0
	}
	for k, p := range b.Preds {
		if li.BackEdge[[2]int{p.Index, b.Index}] && phi.Edges[k] != cmp.X {
			return nil, 0
		}
	}
	// Y loop-invariant
	if yi, ok := cmp.Y.(ssa.Instruction); ok {
		if lp.Blocks[yi.Block()] {
			return nil, 0
		}
	}
	if cmp.Op == token.LSS {
		return cmp.Y, 2
	}
	return cmp.Y, 3
}

type dbgRef struct {
	instr *ssa.DebugRef
	block *ssa.BasicBlock
}

type stopExec struct{ msg string }

func (x *X) newFrame(fn *ssa.Function, params []Value, bind []Value, depth int) *Frame {
	fr := &Frame{x: x, fn: fn, vals: map[ssa.Value]Value{}, bind: bind, li: x.W.Loops(fn), edges: map[[2]int]*edgeInfo{},
		depth: depth, params: params, dbg: map[string][]dbgRef{}, allocs: map[string][]*ssa.Alloc{}, loopEntry: map[*ssa.BasicBlock]*State{}, autoInv: map[*ssa.BasicBlock][]autoInv{}}
	fr.contract = x.W.ContractFor(fn)
	for i, p := range fn.Params {
		fr.vals[p] = params[i]
	}
	for i, fv := range fn.FreeVars {
		fr.vals[fv] = bind[i]
	}
	for _, b := range fn.Blocks {
		for _, in := range b.Instrs {
			switch v := in.(type) {
			case *ssa.DebugRef:
				if id, ok := v.Expr.(*ast.Ident); ok && !v.IsAddr {
					fr.dbg[id.Name] = append(fr.dbg[id.Name], dbgRef{v, b})
				}
			case *ssa.Alloc:
				if v.Comment != "" {
					fr.allocs[v.Comment] = append(fr.allocs[v.Comment], v)
				}
			}
		}
	}
	return fr
}

// run executes the function body. pc0/st0 are the path condition and state
// at entry. It returns the merged return pc, state and values; retPC is
// false when the function never returns normally.
func (fr *Frame) run(pc0 *Term, st0 *State) (*Term, *State, []Value) {
	x := fr.x
	B := x.B
	fn := fr.fn
	if len(fn.Blocks) == 0 {
		panic(stopExec{"function without body: " + fn.String()})
	}
	fr.entry = st0.clone()
	curFuncStack = append(curFuncStack, shortFuncName(fn))
	defer func() { curFuncStack = curFuncStack[:len(curFuncStack)-1] }()

	for _, b := range fr.li.Order {
		var pc *Term
		var st *State
		if b == fn.Blocks[0] {
			pc, st = pc0, st0.clone()
		} else {
			var conds []*Term
			var states []*State
			var preds []*ssa.BasicBlock
			for _, p := range b.Preds {
				if fr.li.BackEdge[[2]int{p.Index, b.Index}] {
					continue
				}
				e := fr.edges[[2]int{p.Index, b.Index}]
				if e == nil || e.pc.IsFalse() {
					continue
				}
				conds = append(conds, e.pc)
				states = append(states, e.state)
				preds = append(preds, p)
			}
			if len(conds) == 0 {
				continue // unreachable
			}
			pc = B.OrFactored(conds...)
			_, conds = B.Relativize(conds)
			st = x.mergeStates(conds, states)
			// phis
			for _, in := range b.Instrs {
				phi, ok := in.(*ssa.Phi)
				if !ok {
					break
				}
				var cur *Value
				for i := len(preds) - 1; i >= 0; i-- {
					// operand index = index of pred in b.Preds
					var op ssa.Value
					for k, p := range b.Preds {
						if p == preds[i] {
							op = phi.Edges[k]
						}
					}
					v := fr.val(op)
					if cur == nil {
						vv := v
						cur = &vv
					} else {
						m := x.iteValue(conds[i], v, *cur)
						cur = &m
					}
				}
				fr.vals[phi] = Value{T: phi.Type(), L: cur.L}
			}
		}
		fr.curBlock = b
		if fr.isRoot && os.Getenv("GOVC_TRACE") != "" {
			fmt.Fprintf(os.Stderr, "trace: block %d (%s) pc-false=%v\n", b.Index, b.Comment, pc.IsFalse())
		}
		if lp := fr.li.ByHeader[b]; lp != nil {
			pc, st = fr.cutLoop(lp, pc, st)
		}
		fr.execBlock(b, pc, st)
	}
	// merge returns
	if len(fr.rets) == 0 {
		return B.False(), st0, nil
	}
	var conds []*Term
	var states []*State
	for _, r := range fr.rets {
		conds = append(conds, r.pc)
		states = append(states, r.state)
	}
	rpc := B.OrFactored(conds...)
	_, conds = B.Relativize(conds)
	rst := x.mergeStates(conds, states)
	nres := fn.Signature.Results().Len()
	vals := make([]Value, nres)
	for k := 0; k < nres; k++ {
		var cur *Value
		for i := len(fr.rets) - 1; i >= 0; i-- {
			v := fr.rets[i].vals[k]
			if cur == nil {
				vv := v
				cur = &vv
			} else {
				m := x.iteValue(conds[i], v, *cur)
				cur = &m
			}
		}
		vals[k] = Value{T: fn.Signature.Results().At(k).Type(), L: cur.L}
	}
	return rpc, rst, vals
}

func (fr *Frame) setEdge(from, to *ssa.BasicBlock, pc *Term, st *State) {
	if pc.IsFalse() {
		return
	}
	key := [2]int{from.Index, to.Index}
	if fr.li.BackEdge[key] {
		fr.checkBackEdge(from, to, pc, st)
		return
	}
	fr.checkLoopExit(from, to, pc, st)
	if old, ok := fr.edges[key]; ok {
		// two edges between the same blocks (e.g. if with same targets)
		_, c := fr.x.B.Relativize([]*Term{old.pc, pc})
		fr.edges[key] = &edgeInfo{pc: fr.x.B.OrFactored(old.pc, pc), state: fr.x.mergeStates(c, []*State{old.state, st})}
		return
	}
	fr.edges[key] = &edgeInfo{pc: pc, state: st}
}

func (fr *Frame) execBlock(b *ssa.BasicBlock, pc *Term, st *State) {
	x := fr.x
	B := x.B
	for _, in := range b.Instrs {
		if pc.IsFalse() {
			return
		}
		switch v := in.(type) {
		case *ssa.Phi:
			// handled at block entry (or by cutLoop)
		case *ssa.If:
			c := fr.val(v.Cond).One()
			fr.setEdge(b, b.Succs[0], B.And(pc, c), st)
			fr.setEdge(b, b.Succs[1], B.And(pc, B.Not(c)), st.clone())
			return
		case *ssa.Jump:
			fr.setEdge(b, b.Succs[0], pc, st)
			return
		case *ssa.Return:
			vals := make([]Value, len(v.Results))
			for i, r := range v.Results {
				vals[i] = fr.val(r)
			}
			fr.rets = append(fr.rets, retInfo{pc: pc, state: st, vals: vals, pos: x.W.pos(v.Pos())})
			if fr.isRoot {
				x.rootRets = append(x.rootRets, retPoint{pc: pc, pos: x.W.pos(v.Pos()), tpos: v.Pos()})
			}
			return
		case *ssa.Panic:
			if x.mode.Sweep && !fr.inDefer && v.Pos().IsValid() {
				o := x.oblige("panic", "explicit", x.W.pos(v.Pos()), pc, B.False())
				o.Extra = map[string]string{"what": "explicit panic reachable"}
			}
			return
		default:
			pc = fr.execInstr(in, pc, st)
		}
	}
}

func (fr *Frame) val(v ssa.Value) Value {
	x := fr.x
	if val, ok := fr.vals[v]; ok {
		return val
	}
	switch c := v.(type) {
	case *ssa.Const:
		return x.constValue(c)
	case *ssa.Function:
		return x.funcValue(c, nil)
	case *ssa.Global:
		et := c.Type().(*types.Pointer).Elem()
		name := shortPkgPath(c.Pkg.Pkg.Path()) + "." + c.Name()
		var l *Loc
		if _, isArr := et.Underlying().(*types.Array); isArr {
			l = &Loc{Kind: LArr, Ref: x.B.Const("garr:"+name, IntSort), T: et.Underlying().(*types.Array).Elem()}
			return Value{T: c.Type(), L: []*Term{l.Ref}}
		}
		l = &Loc{Kind: LGlobal, Name: name, T: et}
		return Value{T: c.Type(), L: []*Term{x.ptrOf(l)}}
	case *ssa.Builtin:
		return Value{T: c.Type(), L: []*Term{x.B.Const("builtin:"+c.Name(), IntSort)}}
	}
	panic(stopExec{fmt.Sprintf("no value for %s (%T) in %s", v.Name(), v, fr.fn)})
}

func (fr *Frame) tryVal(v ssa.Value) (val Value, ok bool) {
	defer func() {
		if r := recover(); r != nil {
			ok = false
		}
	}()
	return fr.val(v), true
}

func (x *X) funcValue(fn *ssa.Function, bind []Value) Value {
	var t *Term
	if len(bind) == 0 {
		t = x.B.Const("fn:"+shortFuncName(fn), IntSort)
	} else {
		t = x.B.Fresh("closure:"+shortFuncName(fn), IntSort)
	}
	if !x.typed[t.id] {
		x.typed[t.id] = true
		x.assumeGlobal(x.B.Neq(t, x.B.Int(0)), "function value non-nil")
	}
	x.funcTab[t] = &FuncVal{Fn: fn, Bind: bind}
	return Value{T: fn.Signature, L: []*Term{t}}
}

func (x *X) constValue(c *ssa.Const) Value {
	B := x.B
	t := c.Type()
	if c.Value == nil {
		return x.zeroValue(t)
	}
	switch c.Value.Kind() {
	case constant.Bool:
		return Value{T: t, L: []*Term{B.Bool(constant.BoolVal(c.Value))}}
	case constant.String:
		return Value{T: t, L: []*Term{x.strLit(constant.StringVal(c.Value))}}
	case constant.Int:
		if b, ok := t.Underlying().(*types.Basic); ok && b.Info()&types.IsFloat != 0 {
			return Value{T: t, L: []*Term{B.Const("f64:"+c.Value.ExactString(), F64Sort)}}
		}
		bi, ok := new(big.Int).SetString(c.Value.ExactString(), 10)
		if !ok {
			panic("bad int const " + c.Value.ExactString())
		}
		return Value{T: t, L: []*Term{B.BigInt(bi)}}
	case constant.Float, constant.Complex:
		return Value{T: t, L: []*Term{B.Const("f64:"+c.Value.ExactString(), F64Sort)}}
	}
	panic("unsupported const " + c.String())
}

func (fr *Frame) execInstr(in ssa.Instruction, pc *Term, st *State) *Term {
	x := fr.x
	B := x.B
	pos := x.W.pos(in.Pos())
	switch v := in.(type) {
	case *ssa.DebugRef:
		return pc
	case *ssa.Alloc:
		et := v.Type().(*types.Pointer).Elem()
		var l *Loc
		switch u := et.Underlying().(type) {
		case *types.Struct:
			ref := x.freshRef("obj")
			fr.distinctFromLive(ref)
			l = &Loc{Kind: LObj, Ref: ref, T: et}
			x.store(st, l, x.zeroValue(et))
		case *types.Array:
			ref := x.freshRef("arr")
			fr.distinctFromLive(ref)
			l = &Loc{Kind: LArr, Ref: ref, T: u.Elem()}
			if scalarSort(u.Elem()) != nil {
				x.store(st, l, x.zeroValue(et))
			}
		default:
			x.nextCell++
			l = &Loc{Kind: LCell, Cell: x.nextCell, T: et}
			st.cells[l.Cell] = x.zeroValue(et)
		}
		fr.vals[v] = Value{T: v.Type(), L: []*Term{x.ptrOf(l)}}
	case *ssa.UnOp:
		fr.vals[v] = fr.unop(v, pc, st, pos)
	case *ssa.BinOp:
		fr.vals[v] = fr.binop(v, pc, pos)
	case *ssa.Store:
		p := fr.val(v.Addr).One()
		et := v.Addr.Type().Underlying().(*types.Pointer).Elem()
		l := x.locOf(p, et)
		val := fr.val(v.Val)
		fr.frameCheck(l, et, pc, pos)
		x.fieldInvObligations(l, Value{T: et, L: val.L}, pc, pos)
		x.store(st, l, Value{T: et, L: val.L})
	case *ssa.FieldAddr:
		p := fr.val(v.X).One()
		stt := v.X.Type().Underlying().(*types.Pointer).Elem()
		l := x.locOf(p, stt)
		f := stt.Underlying().(*types.Struct).Field(v.Field)
		nl := *l
		if l.Kind == LCell {
			panic(stopExec{"FieldAddr on cell"})
		}
		if l.Kind == LBox || l.Kind == LArr {
			nl = Loc{Kind: LObj, Ref: p, T: stt}
		}
		nl.Path = nl.Path + "." + f.Name()
		fr.vals[v] = Value{T: v.Type(), L: []*Term{x.ptrOf(&nl)}}
	case *ssa.Field:
		fr.vals[v] = fr.val(v.X).Field(v.Field)
	case *ssa.IndexAddr:
		fr.vals[v] = fr.indexAddr(v, pc, st, pos)
	case *ssa.Index:
		xv := fr.val(v.X)
		idx := fr.val(v.Index).One()
		switch u := v.X.Type().Underlying().(type) {
		case *types.Array:
			x.runtimeCheck("index", describe(v.X), pos, pc, B.And(B.Le(B.Int(0), idx), B.Lt(idx, B.Int(u.Len()))))
			if LayoutOf(v.X.Type()).Leaves[0].Role == "array" {
				r := B.Select(xv.One(), idx)
				val := Value{T: v.Type(), L: []*Term{r}}
				x.valueFacts(val)
				fr.vals[v] = val
			} else {
				fr.vals[v] = x.freshValue(v.Type(), "idx")
			}
		case *types.Basic: // string
			ln := x.strLen(xv.One())
			x.runtimeCheck("index", describe(v.X), pos, pc, B.And(B.Le(B.Int(0), idx), B.Lt(idx, ln)))
			fr.vals[v] = Value{T: v.Type(), L: []*Term{x.strAt(xv.One(), idx)}}
		default:
			fr.vals[v] = x.freshValue(v.Type(), "idx")
		}
	case *ssa.Lookup:
		fr.vals[v] = fr.lookup(v, pc, st, pos)
	case *ssa.Slice:
		fr.vals[v] = fr.sliceOp(v, pc, st, pos)
	case *ssa.MakeSlice:
		ln := fr.val(v.Len).One()
		cp := fr.val(v.Cap).One()
		if x.mode.Sweep {
			o := x.oblige("makeslice", describeInstr(v), pos, pc, B.And(B.Le(B.Int(0), ln), B.Le(ln, cp)))
			o.Extra = map[string]string{"what": "make with negative length panics"}
		}
		// assume what the runtime guarantees after a successful make
		x.assume(pc, B.And(B.Le(B.Int(0), ln), B.Le(ln, cp), B.Le(cp, B.BigInt(maxLen))), "make succeeded")
		et := v.Type().Underlying().(*types.Slice).Elem()
		base := x.freshRef("mk")
		fr.distinctFromLive(base)
		x.zeroBacking(st, base, et)
		fr.vals[v] = Value{T: v.Type(), L: []*Term{base, B.Int(0), ln, cp}}
	case *ssa.MakeMap:
		ref := x.freshRef("map")
		x.initMap(st, ref, v.Type())
		fr.vals[v] = Value{T: v.Type(), L: []*Term{ref}}
	case *ssa.MakeChan:
		fr.vals[v] = Value{T: v.Type(), L: []*Term{x.freshRef("chan")}}
	case *ssa.MakeClosure:
		bind := make([]Value, len(v.Bindings))
		for i, bnd := range v.Bindings {
			bind[i] = fr.val(bnd)
			// captured cells escape
		}
		fr.vals[v] = x.funcValue(v.Fn.(*ssa.Function), bind)
	case *ssa.MakeInterface:
		fr.vals[v] = x.makeInterface(fr.val(v.X), v.X.Type(), v.Type())
	case *ssa.ChangeInterface:
		xv := fr.val(v.X)
		fr.vals[v] = Value{T: v.Type(), L: xv.L}
	case *ssa.ChangeType:
		xv := fr.val(v.X)
		fr.vals[v] = Value{T: v.Type(), L: xv.L}
	case *ssa.Convert:
		fr.vals[v] = fr.convert(v, st)
	case *ssa.MultiConvert:
		fr.vals[v] = x.freshValue(v.Type(), "mconv")
	case *ssa.SliceToArrayPointer:
		fr.vals[v] = x.freshValue(v.Type(), "s2ap")
	case *ssa.TypeAssert:
		fr.vals[v] = fr.typeAssert(v, pc, pos)
	case *ssa.Extract:
		tv := fr.val(v.Tuple)
		lo, hi := tupleRange(v.Tuple.Type().(*types.Tuple), v.Index)
		fr.vals[v] = Value{T: v.Type(), L: tv.L[lo:hi]}
	case *ssa.MapUpdate:
		fr.mapUpdate(v, pc, st, pos)
	case *ssa.Range:
		fr.vals[v] = Value{T: v.Type(), L: []*Term{x.B.Fresh("iter", IntSort)}}
		// remember the ranged-over value
		x.rangeOf[fr.vals[v].L[0]] = fr.val(v.X)
	case *ssa.Next:
		fr.vals[v] = fr.next(v, st)
	case *ssa.Select:
		fr.vals[v] = x.freshValue(v.Type(), "select")
	case *ssa.Send:
		// no effect modelled
	case *ssa.Go:
		return fr.call(v, &v.Call, nil, pc, st, pos, true)
	case *ssa.Defer:
		d := deferred{guard: pc, call: &v.Call, pos: v.Pos(), block: v.Block()}
		d.fnv, d.args = fr.evalCallOperands(&v.Call)
		fr.defers = append(fr.defers, d)
	case *ssa.RunDefers:
		return fr.runDefers(pc, st)
	case *ssa.Call:
		return fr.call(v, &v.Call, v, pc, st, pos, false)
	default:
		panic(stopExec{fmt.Sprintf("unsupported instruction %T in %s", in, fr.fn)})
	}
	return pc
}

func describe(v ssa.Value) string {
	n := v.Name()
	if p, ok := v.(*ssa.Parameter); ok {
		return p.Name()
	}
	switch u := v.(type) {
	case *ssa.UnOp:
		if u.Op == token.MUL {
			return describe(u.X)
		}
	case *ssa.FieldAddr:
		st := u.X.Type().Underlying().(*types.Pointer).Elem().Underlying().(*types.Struct)
		return describe(u.X) + "." + st.Field(u.Field).Name()
	case *ssa.Field:
		st := u.X.Type().Underlying().(*types.Struct)
		return describe(u.X) + "." + st.Field(u.Field).Name()
	case *ssa.Alloc:
		if u.Comment != "" {
			return u.Comment
		}
	case *ssa.Phi:
		if u.Comment != "" {
			return u.Comment
		}
	case *ssa.Slice:
		return describe(u.X) + "[:]"
	case *ssa.Call:
		if f := u.Call.StaticCallee(); f != nil {
			return f.Name() + "()"
		}
		if u.Call.IsInvoke() {
			return u.Call.Method.Name() + "()"
		}
	case *ssa.Extract:
		return fmt.Sprintf("%s#%d", describe(u.Tuple), u.Index)
	case *ssa.FreeVar:
		return u.Name()
	case *ssa.Global:
		return u.Name()
	case *ssa.Convert:
		return describe(u.X)
	case *ssa.ChangeType:
		return describe(u.X)
	case *ssa.IndexAddr:
		return describe(u.X) + "[]"
	case *ssa.Const:
		return "const"
	}
	_ = n
	return "tmp"
}

func describeInstr(v ssa.Value) string {
	// try to find the source variable this value is assigned to
	if refs := v.Referrers(); refs != nil {
		for _, r := range *refs {
			if d, ok := r.(*ssa.DebugRef); ok {
				if id, ok := d.Expr.(*ast.Ident); ok {
					return id.Name
				}
			}
			if s, ok := r.(*ssa.Store); ok {
				return describe(s.Addr)
			}
		}
	}
	return describe(v)
}

// distinctFromLive: a freshly allocated object is different from every
// pointer, slice backing array and map that already exists in this frame.
func (fr *Frame) distinctFromLive(r *Term) {
	x := fr.x
	seen := map[int]bool{}
	var live []*Term
	for sv, v := range fr.vals {
		if len(v.L) == 0 {
			continue
		}
		var t *Term
		switch sv.Type().Underlying().(type) {
		case *types.Slice, *types.Pointer, *types.Map, *types.Chan:
			t = v.L[0]
		case *types.Interface:
			t = v.L[1]
		default:
			continue
		}
		if t == r || t.Op == "int" || seen[t.id] || x.isFresh[t] {
			continue
		}
		seen[t.id] = true
		live = append(live, t)
	}
	sort.Slice(live, func(a, b int) bool { return live[a].id < live[b].id })
	for _, t := range live {
		// (a "fresh" result of a contract may be nil on its error path)
		x.assumeGlobal(x.B.Or(x.B.Eq(r, x.B.Int(0)), x.B.Neq(t, r)), "fresh allocation differs from existing objects")
	}
}

func (x *X) freshRef(prefix string) *Term {
	t := x.B.Fresh(prefix, IntSort)
	// fresh allocations are non-nil, positive and distinct from each other
	x.assumeGlobal(x.B.Lt(x.B.Int(0), t), "fresh ref positive")
	for _, o := range x.freshRefs {
		x.assumeGlobal(x.B.Neq(t, o), "fresh refs distinct")
	}
	for _, o := range x.paramRefs {
		x.assumeGlobal(x.B.Neq(t, o), "fresh ref distinct from parameter")
	}
	x.freshRefs = append(x.freshRefs, t)
	x.isFresh[t] = true
	x.unescaped[t] = true
	return t
}

func (x *X) zeroBacking(st *State, base *Term, et types.Type) {
	B := x.B
	if _, isArr := et.Underlying().(*types.Array); isArr {
		return
	}
	for _, lf := range LayoutOf(et).Leaves {
		if lf.Role == "array" || lf.Role == "opaque" {
			continue
		}
		n := "E:" + heapTypeName(et) + lf.Path
		srt := ArraySort(IntSort, ArraySort(IntSort, lf.Sort))
		h := x.heapRead(st, n, srt)
		z := x.zeroLeaf(Leaf{Sort: ArraySort(IntSort, lf.Sort)})
		x.heapSet(st, n, B.Store(h, base, z))
	}
}

// ---- unary / binary ------------------------------------------------------

func (fr *Frame) unop(v *ssa.UnOp, pc *Term, st *State, pos string) Value {
	x := fr.x
	B := x.B
	xv := fr.val(v.X)
	switch v.Op {
	case token.MUL: // load
		et := v.X.Type().Underlying().(*types.Pointer).Elem()
		l := x.locOf(xv.One(), et)
		val := x.load(st, l, et)
		return Value{T: v.Type(), L: val.L}
	case token.NOT:
		return Value{T: v.Type(), L: []*Term{B.Not(xv.One())}}
	case token.SUB:
		if xv.One().Sort == F64Sort {
			return x.freshValue(v.Type(), "fneg")
		}
		return Value{T: v.Type(), L: []*Term{x.wrap(B.Neg(xv.One()), v.Type())}}
	case token.XOR:
		// ^x = -x-1 (signed) or max-x (unsigned)
		b := v.Type().Underlying().(*types.Basic)
		bits, signed := intBits(b)
		if signed {
			return Value{T: v.Type(), L: []*Term{B.Sub(B.Neg(xv.One()), B.Int(1))}}
		}
		return Value{T: v.Type(), L: []*Term{B.Sub(B.BigInt(new(big.Int).Sub(pow2(bits), big.NewInt(1))), xv.One())}}
	case token.ARROW:
		return x.freshValue(v.Type(), "recv")
	}
	panic(stopExec{"unsupported unop " + v.Op.String()})
}

func (fr *Frame) binop(v *ssa.BinOp, pc *Term, pos string) Value {
	x := fr.x
	B := x.B
	a, b := fr.val(v.X), fr.val(v.Y)
	rt := v.Type()
	one := func(t *Term) Value { return Value{T: rt, L: []*Term{t}} }
	xt := v.X.Type().Underlying()
	// comparisons of aggregates
	if v.Op == token.EQL || v.Op == token.NEQ {
		eq := x.valuesEqual(a, b, v.X.Type(), v.Y.Type())
		if v.Op == token.NEQ {
			eq = B.Not(eq)
		}
		return one(eq)
	}
	if bt, ok := xt.(*types.Basic); ok {
		switch {
		case bt.Info()&types.IsString != 0:
			switch v.Op {
			case token.ADD:
				return one(x.strConcat(a.One(), b.One()))
			case token.LSS, token.LEQ, token.GTR, token.GEQ:
				lt := func(p, q *Term) *Term {
					d := B.DeclFunc("strlt", []*Sort{StrSort, StrSort}, BoolSort)
					return B.App(d, p, q)
				}
				switch v.Op {
				case token.LSS:
					return one(lt(a.One(), b.One()))
				case token.GTR:
					return one(lt(b.One(), a.One()))
				case token.LEQ:
					return one(B.Not(lt(b.One(), a.One())))
				default:
					return one(B.Not(lt(a.One(), b.One())))
				}
			}
		case bt.Info()&types.IsBoolean != 0:
			switch v.Op {
			case token.AND, token.LAND:
				return one(B.And(a.One(), b.One()))
			case token.OR, token.LOR:
				return one(B.Or(a.One(), b.One()))
			}
		case bt.Info()&(types.IsFloat|types.IsComplex) != 0:
			return x.freshValue(rt, "fop")
		case bt.Info()&types.IsInteger != 0:
			return one(fr.intBinop(v, a.One(), b.One(), pc, pos))
		}
	}
	panic(stopExec{fmt.Sprintf("unsupported binop %s on %s", v.Op, v.X.Type())})
}

func (fr *Frame) intBinop(v *ssa.BinOp, a, b *Term, pc *Term, pos string) *Term {
	x := fr.x
	B := x.B
	t := v.X.Type()
	bt := t.Underlying().(*types.Basic)
	bits, signed := intBits(bt)
	switch v.Op {
	case token.LSS:
		return B.Lt(a, b)
	case token.LEQ:
		return B.Le(a, b)
	case token.GTR:
		return B.Gt(a, b)
	case token.GEQ:
		return B.Ge(a, b)
	case token.ADD:
		return fr.arith(B.Add(a, b), bits, signed, pc, pos, v)
	case token.SUB:
		return fr.arith(B.Sub(a, b), bits, signed, pc, pos, v)
	case token.MUL:
		return fr.arith(B.Mul(a, b), bits, signed, pc, pos, v)
	case token.QUO, token.REM:
		x.runtimeCheck("divzero", describe(v.Y), pos, pc, B.Neq(b, B.Int(0)))
		// Go truncated division
		q, r := x.truncDivMod(a, b)
		if v.Op == token.QUO {
			return x.wrapBits(q, bits, signed)
		}
		return r
	case token.AND:
		return x.bitAnd(a, b, bits, signed)
	case token.OR:
		// a | b = a + b - (a & b)
		return x.wrapBits(B.Sub(B.Add(a, b), x.bitAnd(a, b, bits, signed)), bits, signed)
	case token.XOR:
		// a ^ b = a + b - 2*(a & b)
		return x.wrapBits(B.Sub(B.Add(a, b), B.Mul(B.Int(2), x.bitAnd(a, b, bits, signed))), bits, signed)
	case token.AND_NOT:
		return x.wrapBits(B.Sub(a, x.bitAnd(a, b, bits, signed)), bits, signed)
	case token.SHL:
		if b.IsLit() && b.Val.IsInt64() && b.Val.Int64() >= 0 && b.Val.Int64() < 128 {
			k := uint(b.Val.Int64())
			if k >= bits {
				return B.Int(0)
			}
			return x.wrapBits(B.Mul(a, B.BigInt(pow2(k))), bits, signed)
		}
		return x.uf2("shl", a, b, t)
	case token.SHR:
		if b.IsLit() && b.Val.IsInt64() && b.Val.Int64() >= 0 && b.Val.Int64() < 128 {
			k := uint(b.Val.Int64())
			if k >= bits {
				if signed {
					return B.Ite(B.Lt(a, B.Int(0)), B.Int(-1), B.Int(0))
				}
				return B.Int(0)
			}
			return B.Div(a, B.BigInt(pow2(k))) // floor division = arithmetic shift
		}
		return x.uf2("shr", a, b, t)
	}
	panic(stopExec{"unsupported int binop " + v.Op.String()})
}

// arith: the result of a +, -, * on machine integers. In a function whose
// contract says "nowrap", signed 64-bit results are proved to stay in range
// (obligation kind "overflow") and are then used unwrapped, which keeps the
// verification conditions linear; everywhere else the result wraps exactly.
func (fr *Frame) arith(r *Term, bits uint, signed bool, pc *Term, pos string, v *ssa.BinOp) *Term {
	x := fr.x
	B := x.B
	if !x.noWrap || !signed || bits != 64 {
		return x.wrapBits(r, bits, signed)
	}
	w := x.wrapBits(r, bits, signed)
	if w == r {
		return r // the interval analysis already shows it is in range
	}
	lo := B.BigInt(new(big.Int).Neg(pow2(63)))
	hi := B.BigInt(new(big.Int).Sub(pow2(63), big.NewInt(1)))
	in := B.And(B.Le(lo, r), B.Le(r, hi))
	if !B.hasBoundVar(r) {
		o := x.oblige("overflow", describeInstr(v), pos, pc, in)
		o.Extra = map[string]string{"what": "signed 64-bit arithmetic must not overflow (function verified with mathematical integers after this check)"}
		x.assume(pc, in, "no overflow (proved as an obligation)")
	}
	return r
}

// runtimeCheck: a check the Go runtime performs (bounds, division by zero). In sweep
// mode it is an obligation; in every mode execution continues only if it held.
func (x *X) runtimeCheck(kind, detail, pos string, pc, cond *Term) {
	if x.mode.Sweep {
		x.oblige(kind, detail, pos, pc, cond)
	}
	x.assume(pc, cond, "the run-time "+kind+" check passed (execution continued)")
}

func (x *X) truncDivMod(a, b *Term) (*Term, *Term) {
	B := x.B
	// SMT div is floor for b>0 and ceil for b<0 (Euclidean: remainder >= 0).
	// Go: q = trunc(a/b), r = a - q*b.
	if lo, _, ok := x.interval(a); ok && lo.Sign() >= 0 {
		if blo, _, ok2 := x.interval(b); ok2 && blo.Sign() > 0 {
			return B.Div(a, b), B.Mod(a, b)
		}
	}
	ed := B.Div(a, b)
	em := B.Mod(a, b)
	// Euclidean: a = b*ed + em, 0 <= em < |b|
	// trunc: if a >= 0 or em == 0: q = ed ; else q = ed + (b>0 ? 1 : -1)
	adj := B.Ite(B.Or(B.Le(B.Int(0), a), B.Eq(em, B.Int(0))), B.Int(0), B.Ite(B.Lt(B.Int(0), b), B.Int(1), B.Int(-1)))
	q := B.Add(ed, adj)
	r := B.Sub(a, B.Mul(q, b))
	return q, r
}

// toUnsigned converts a possibly negative two's-complement value to its
// unsigned representation of the given width.
func (x *X) toUnsigned(a *Term, bits uint, signed bool) *Term {
	if !signed {
		return a
	}
	if lo, _, ok := x.interval(a); ok && lo.Sign() >= 0 {
		return a
	}
	return x.B.Ite(x.B.Lt(a, x.B.Int(0)), x.B.Add(a, x.B.BigInt(pow2(bits))), a)
}

func (x *X) fromUnsigned(u *Term, bits uint, signed bool) *Term {
	if !signed {
		return u
	}
	return x.wrapBits(u, bits, true)
}

// bitAnd encodes a & b exactly when one operand is a literal (mask made of
// runs of ones), otherwise as an uninterpreted function with bounds.
func (x *X) bitAnd(a, b *Term, bits uint, signed bool) *Term {
	B := x.B
	if a.IsLit() && !b.IsLit() {
		a, b = b, a
	}
	if a.IsLit() && b.IsLit() {
		ua := new(big.Int).Set(a.Val)
		ub := new(big.Int).Set(b.Val)
		if ua.Sign() < 0 {
			ua.Add(ua, pow2(bits))
		}
		if ub.Sign() < 0 {
			ub.Add(ub, pow2(bits))
		}
		r := new(big.Int).And(ua, ub)
		if signed && r.Cmp(pow2(bits-1)) >= 0 {
			r.Sub(r, pow2(bits))
		}
		return B.BigInt(r)
	}
	if b.IsLit() {
		mask := new(big.Int).Set(b.Val)
		if mask.Sign() < 0 {
			mask.Add(mask, pow2(bits))
		}
		ua := x.toUnsigned(a, bits, signed)
		// decompose mask into runs of ones
		var parts []*Term
		i := uint(0)
		for i < bits {
			if mask.Bit(int(i)) == 0 {
				i++
				continue
			}
			j := i
			for j < bits && mask.Bit(int(j)) == 1 {
				j++
			}
			// bits [i,j): ((ua div 2^i) mod 2^(j-i)) * 2^i
			part := B.Mul(B.Mod(B.Div(ua, B.BigInt(pow2(i))), B.BigInt(pow2(j-i))), B.BigInt(pow2(i)))
			parts = append(parts, part)
			i = j
		}
		if len(parts) == 0 {
			return B.Int(0)
		}
		r := B.Add(parts...)
		if signed && mask.Bit(int(bits-1)) == 1 {
			return x.fromUnsigned(r, bits, true)
		}
		return r
	}
	d := B.DeclFunc(fmt.Sprintf("bvand%d", bits), []*Sort{IntSort, IntSort}, IntSort)
	ua, ub := x.toUnsigned(a, bits, signed), x.toUnsigned(b, bits, signed)
	r := B.App(d, ua, ub)
	if !x.typed[r.id] {
		x.typed[r.id] = true
		x.assumeGlobal(B.And(B.Le(B.Int(0), r), B.Le(r, ua), B.Le(r, ub)), "bitand bounds")
		// disjoint bit ranges: one operand below 2^k, the other a multiple of 2^k
		for _, k := range []uint{8, 9, 12, 16, 24} {
			p := B.BigInt(pow2(k))
			x.assumeGlobal(B.Implies(B.Or(B.And(B.Lt(ua, p), B.Eq(B.Mod(ub, p), B.Int(0))), B.And(B.Lt(ub, p), B.Eq(B.Mod(ua, p), B.Int(0)))), B.Eq(r, B.Int(0))), "bitand of disjoint bit ranges")
		}
	}
	return x.fromUnsigned(r, bits, signed)
}

func (x *X) uf2(name string, a, b *Term, t types.Type) *Term {
	d := x.B.DeclFunc(name+"$"+shortTypeKey(t), []*Sort{IntSort, IntSort}, IntSort)
	r := x.B.App(d, a, b)
	x.typeFacts(r, Leaf{Sort: IntSort, T: t})
	return r
}

func (x *X) strConcat(a, b *Term) *Term {
	B := x.B
	d := B.DeclFunc("strcat", []*Sort{StrSort, StrSort}, StrSort)
	r := B.App(d, a, b)
	if !x.typed[r.id] {
		x.typed[r.id] = true
		x.assumeGlobal(B.Eq(x.strLen(r), B.Add(x.strLen(a), x.strLen(b))), "strcat length")
		x.strLenFacts(a)
		x.strLenFacts(b)
	}
	return r
}

func (x *X) valuesEqual(a, b Value, ta, tb types.Type) *Term {
	B := x.B
	switch ta.Underlying().(type) {
	case *types.Interface:
		if _, ok := tb.Underlying().(*types.Interface); ok {
			// nil comparison needs only the tag
			if b.L[0].IsLit() && b.L[0].Val.Sign() == 0 {
				return B.Eq(a.L[0], B.Int(0))
			}
			if a.L[0].IsLit() && a.L[0].Val.Sign() == 0 {
				return B.Eq(b.L[0], B.Int(0))
			}
			return B.And(B.Eq(a.L[0], b.L[0]), B.Eq(a.L[1], b.L[1]))
		}
	case *types.Slice:
		// only comparison with nil is legal
		return B.Eq(a.L[0], B.Int(0))
	}
	if _, ok := tb.Underlying().(*types.Slice); ok {
		return B.Eq(b.L[0], B.Int(0))
	}
	if len(a.L) != len(b.L) {
		panic(stopExec{fmt.Sprintf("comparison of %s and %s", ta, tb)})
	}
	var cs []*Term
	for i := range a.L {
		cs = append(cs, x.termEq(a.L[i], b.L[i]))
	}
	return B.And(cs...)
}

// ---- memory-shaped instructions -------------------------------------------

func (fr *Frame) indexAddr(v *ssa.IndexAddr, pc *Term, st *State, pos string) Value {
	x := fr.x
	B := x.B
	xv := fr.val(v.X)
	idx := fr.val(v.Index).One()
	switch u := v.X.Type().Underlying().(type) {
	case *types.Slice:
		ln := xv.L[2]
		x.runtimeCheck("index", describe(v.X), pos, pc, B.And(B.Le(B.Int(0), idx), B.Lt(idx, ln)))
		l := &Loc{Kind: LElem, Ref: xv.L[0], Idx: B.Index(xv.L[1], idx), T: u.Elem()}
		return Value{T: v.Type(), L: []*Term{x.ptrOf(l)}}
	case *types.Pointer:
		arr := u.Elem().Underlying().(*types.Array)
		x.runtimeCheck("index", describe(v.X), pos, pc, B.And(B.Le(B.Int(0), idx), B.Lt(idx, B.Int(arr.Len()))))
		key := x.arrayKey(xv.One(), u.Elem())
		l := &Loc{Kind: LElem, Ref: key, Idx: idx, T: arr.Elem()}
		return Value{T: v.Type(), L: []*Term{x.ptrOf(l)}}
	}
	panic(stopExec{"IndexAddr on " + v.X.Type().String()})
}

// arrayKey returns the E-space key of the array a pointer-to-array refers to.
func (x *X) arrayKey(p *Term, arrT types.Type) *Term {
	l := x.locOf(p, arrT)
	switch l.Kind {
	case LArr:
		return l.Ref
	case LObj, LElem:
		return x.subKey(l, l.Path)
	case LGlobal:
		return x.B.Const("garr:"+l.Name+l.Path, IntSort)
	case LBox:
		return l.Ref
	}
	panic(stopExec{"arrayKey: unsupported location"})
}

func (fr *Frame) sliceOp(v *ssa.Slice, pc *Term, st *State, pos string) Value {
	x := fr.x
	B := x.B
	xv := fr.val(v.X)
	var low, high, max *Term
	if v.Low != nil {
		low = fr.val(v.Low).One()
	} else {
		low = B.Int(0)
	}
	if v.High != nil {
		high = fr.val(v.High).One()
	}
	if v.Max != nil {
		max = fr.val(v.Max).One()
	}
	switch u := v.X.Type().Underlying().(type) {
	case *types.Slice:
		base, off, ln, cp := xv.L[0], xv.L[1], xv.L[2], xv.L[3]
		if high == nil {
			high = ln
		}
		lim := cp
		if max != nil {
			lim = max
		}
		{
			cond := B.And(B.Le(B.Int(0), low), B.Le(low, high), B.Le(high, lim))
			if max != nil {
				cond = B.And(cond, B.Le(max, cp))
			}
			x.runtimeCheck("slice", describe(v.X), pos, pc, cond)
		}
		return Value{T: v.Type(), L: []*Term{base, B.Add(off, low), B.Sub(high, low), B.Sub(lim, low)}}
	case *types.Basic: // string
		s := xv.One()
		ln := x.strLen(s)
		x.strLenFacts(s)
		if high == nil {
			high = ln
		}
		x.runtimeCheck("slice", describe(v.X), pos, pc, B.And(B.Le(B.Int(0), low), B.Le(low, high), B.Le(high, ln)))
		return Value{T: v.Type(), L: []*Term{x.subStr(s, low, high)}}
	case *types.Pointer:
		arr := u.Elem().Underlying().(*types.Array)
		n := B.Int(arr.Len())
		if high == nil {
			high = n
		}
		lim := n
		if max != nil {
			lim = max
		}
		x.runtimeCheck("slice", describe(v.X), pos, pc, B.And(B.Le(B.Int(0), low), B.Le(low, high), B.Le(high, lim), B.Le(lim, n)))
		key := x.arrayKey(xv.One(), u.Elem())
		return Value{T: v.Type(), L: []*Term{key, low, B.Sub(high, low), B.Sub(lim, low)}}
	}
	panic(stopExec{"Slice on " + v.X.Type().String()})
}

func (x *X) subStr(s, lo, hi *Term) *Term {
	B := x.B
	if lo.IsLit() && lo.Val.Sign() == 0 && hi == x.strLen(s) {
		return s
	}
	d := B.DeclFunc("substr", []*Sort{StrSort, IntSort, IntSort}, StrSort)
	r := B.App(d, s, lo, hi)
	if !x.typed[r.id] {
		x.typed[r.id] = true
		ok := B.And(B.Le(B.Int(0), lo), B.Le(lo, hi), B.Le(hi, x.strLen(s)))
		x.assumeGlobal(B.Implies(ok, B.Eq(x.strLen(r), B.Sub(hi, lo))), "substr length")
		x.strLenFacts(r)
	}
	return r
}

func (fr *Frame) convert(v *ssa.Convert, st *State) Value {
	x := fr.x
	B := x.B
	xv := fr.val(v.X)
	from, to := v.X.Type().Underlying(), v.Type().Underlying()
	fb, fok := from.(*types.Basic)
	tb, tok := to.(*types.Basic)
	switch {
	case fok && tok && fb.Info()&types.IsInteger != 0 && tb.Info()&types.IsInteger != 0:
		return Value{T: v.Type(), L: []*Term{x.wrap(xv.One(), v.Type())}}
	case fok && tok && fb.Info()&types.IsInteger != 0 && tb.Info()&types.IsFloat != 0:
		d := B.DeclFunc("i2f", []*Sort{IntSort}, F64Sort)
		return Value{T: v.Type(), L: []*Term{B.App(d, xv.One())}}
	case fok && tok && fb.Info()&types.IsFloat != 0 && tb.Info()&types.IsInteger != 0:
		d := B.DeclFunc("f2i$"+tb.Name(), []*Sort{F64Sort}, IntSort)
		r := B.App(d, xv.One())
		x.typeFacts(r, Leaf{Sort: IntSort, T: v.Type()})
		return Value{T: v.Type(), L: []*Term{r}}
	case fok && tok && fb.Info()&types.IsFloat != 0 && tb.Info()&types.IsFloat != 0:
		return Value{T: v.Type(), L: xv.L}
	case fok && tok && fb.Info()&types.IsString != 0 && tb.Info()&types.IsString != 0:
		return Value{T: v.Type(), L: xv.L}
	case tok && tb.Info()&types.IsString != 0:
		// []byte -> string, rune/int -> string
		if _, ok := from.(*types.Slice); ok {
			return Value{T: v.Type(), L: []*Term{x.bytesToStr(st, xv)}}
		}
		return x.freshValue(v.Type(), "str")
	case fok && fb.Info()&types.IsString != 0:
		// string -> []byte / []rune
		if sl, ok := to.(*types.Slice); ok {
			base := x.freshRef("s2b")
			ln := x.strLen(xv.One())
			x.strLenFacts(xv.One())
			if bt, ok := sl.Elem().Underlying().(*types.Basic); ok && bt.Kind() == types.Uint8 {
				d := B.DeclFunc("strbytes", []*Sort{StrSort}, ArraySort(IntSort, IntSort))
				n := "E:" + heapTypeName(sl.Elem())
				srt := ArraySort(IntSort, ArraySort(IntSort, IntSort))
				h := x.heapRead(st, n, srt)
				x.heapSet(st, n, B.Store(h, base, B.App(d, xv.One())))
				return Value{T: v.Type(), L: []*Term{base, B.Int(0), ln, ln}}
			}
			f := x.freshValue(v.Type(), "runes")
			return f
		}
	case fok && fb.Kind() == types.UnsafePointer, tok && tb.Kind() == types.UnsafePointer:
		return Value{T: v.Type(), L: xv.L}
	}
	if len(LayoutOf(v.Type()).Leaves) == len(xv.L) {
		return Value{T: v.Type(), L: xv.L}
	}
	panic(stopExec{fmt.Sprintf("unsupported conversion %s -> %s", v.X.Type(), v.Type())})
}

func (x *X) bytesToStr(st *State, sl Value) *Term {
	B := x.B
	et := sl.T.Underlying().(*types.Slice).Elem()
	h := x.heapRead(st, "E:"+heapTypeName(et), ArraySort(IntSort, ArraySort(IntSort, IntSort)))
	arr := B.Select(h, sl.L[0])
	d := B.DeclFunc("bytes2str", []*Sort{ArraySort(IntSort, IntSort), IntSort, IntSort}, StrSort)
	r := B.App(d, arr, sl.L[1], sl.L[2])
	if !x.typed[r.id] {
		x.typed[r.id] = true
		x.assumeGlobal(B.Eq(x.strLen(r), sl.L[2]), "string(bytes) length")
	}
	return r
}

func (x *X) makeInterface(v Value, from, to types.Type) Value {
	B := x.B
	tag := x.typeID(from)
	var data *Term
	if len(v.L) == 1 && v.L[0].Sort == IntSort {
		data = v.L[0]
	} else if len(v.L) == 1 {
		d := B.DeclFunc("box$"+v.L[0].Sort.String(), []*Sort{v.L[0].Sort}, IntSort)
		data = B.App(d, v.L[0])
		ud := B.DeclFunc("unbox$"+v.L[0].Sort.String(), []*Sort{IntSort}, v.L[0].Sort)
		x.assumeGlobal(B.Eq(B.App(ud, data), v.L[0]), "unbox(box(v)) = v")
	} else {
		data = B.Fresh("ifacedata", IntSort)
		x.boxed[data] = v
	}
	return Value{T: to, L: []*Term{tag, data}}
}

func (fr *Frame) typeAssert(v *ssa.TypeAssert, pc *Term, pos string) Value {
	x := fr.x
	B := x.B
	xv := fr.val(v.X)
	tag, data := xv.L[0], xv.L[1]
	var ok *Term
	var res Value
	if _, isIface := v.AssertedType.Underlying().(*types.Interface); isIface {
		d := B.DeclFunc("implements$"+shortTypeKey(v.AssertedType), []*Sort{IntSort}, BoolSort)
		ok = B.And(B.Neq(tag, B.Int(0)), B.App(d, tag))
		// static knowledge: if the tag is a literal we know the concrete type
		if tag.IsLit() {
			for k, id := range x.typeIDs {
				if int64(id) == tag.Val.Int64() {
					if ct := x.typeByKey[k]; ct != nil {
						ok = B.Bool(types.Implements(ct, v.AssertedType.Underlying().(*types.Interface)))
					}
				}
			}
		}
		res = Value{T: v.AssertedType, L: []*Term{tag, data}}
	} else {
		ok = B.Eq(tag, x.typeID(v.AssertedType))
		lay := LayoutOf(v.AssertedType)
		switch {
		case len(lay.Leaves) == 1 && lay.Leaves[0].Sort == IntSort:
			res = Value{T: v.AssertedType, L: []*Term{data}}
		case len(lay.Leaves) == 1:
			ud := B.DeclFunc("unbox$"+lay.Leaves[0].Sort.String(), []*Sort{IntSort}, lay.Leaves[0].Sort)
			res = Value{T: v.AssertedType, L: []*Term{B.App(ud, data)}}
		default:
			if bv, found := x.boxed[data]; found && len(bv.L) == len(lay.Leaves) {
				res = Value{T: v.AssertedType, L: bv.L}
			} else {
				res = x.freshValue(v.AssertedType, "unboxed")
			}
		}
		x.valueFacts(res)
	}
	if v.CommaOk {
		// zero value when !ok is not modelled precisely (value is only used under ok in practice)
		return Value{T: v.Type(), L: append(append([]*Term{}, res.L...), ok)}
	}
	if x.mode.Sweep {
		o := x.oblige("typeassert", shortTypeKey(v.AssertedType), pos, pc, ok)
		o.Extra = map[string]string{"what": "type assertion without comma-ok may panic"}
	}
	x.assume(pc, ok, "type assertion succeeded")
	return res
}

// ---- maps ----------------------------------------------------------------

func mapKeySort(mt *types.Map) *Sort {
	if s := scalarSort(mt.Key()); s != nil {
		return s
	}
	return nil
}

func (x *X) mapHeapNames(mt types.Type) (string, *Sort, *types.Map) {
	m := mt.Underlying().(*types.Map)
	ks := mapKeySort(m)
	return "M:" + heapTypeName(mt), ks, m
}

func (x *X) initMap(st *State, ref *Term, mt types.Type) {
	B := x.B
	name, ks, _ := x.mapHeapNames(mt)
	if ks == nil {
		return
	}
	hn := name + "#has"
	srt := ArraySort(IntSort, ArraySort(ks, BoolSort))
	h := x.heapRead(st, hn, srt)
	empty := B.Const("emptyset$"+ks.String(), ArraySort(ks, BoolSort))
	k := B.BoundVar("ek", ks)
	ax := B.Forall([]*Term{k}, B.Not(B.Select(empty, k)))
	if !x.typed[-empty.id] {
		x.typed[-empty.id] = true
		x.assumeGlobal(ax, "empty map")
	}
	x.heapSet(st, hn, B.Store(h, ref, empty))
}

func (fr *Frame) lookup(v *ssa.Lookup, pc *Term, st *State, pos string) Value {
	x := fr.x
	B := x.B
	xv := fr.val(v.X)
	if bt, ok := v.X.Type().Underlying().(*types.Basic); ok && bt.Info()&types.IsString != 0 {
		idx := fr.val(v.Index).One()
		x.runtimeCheck("index", describe(v.X), pos, pc, B.And(B.Le(B.Int(0), idx), B.Lt(idx, x.strLen(xv.One()))))
		return Value{T: v.Type(), L: []*Term{x.strAt(xv.One(), idx)}}
	}
	name, ks, m := x.mapHeapNames(v.X.Type())
	var has *Term
	var val Value
	if ks == nil {
		has = B.Fresh("maphas", BoolSort)
		val = x.freshValue(m.Elem(), "mapval")
	} else {
		key := fr.val(v.Index).One()
		hh := x.heapRead(st, name+"#has", ArraySort(IntSort, ArraySort(ks, BoolSort)))
		has = B.And(B.Neq(xv.One(), B.Int(0)), B.Select(B.Select(hh, xv.One()), key))
		lay := LayoutOf(m.Elem())
		val = Value{T: m.Elem(), L: make([]*Term, len(lay.Leaves))}
		zero := x.zeroValue(m.Elem())
		for i, lf := range lay.Leaves {
			hv := x.heapRead(st, name+"#val"+lf.Path, ArraySort(IntSort, ArraySort(ks, lf.Sort)))
			val.L[i] = B.Ite(has, B.Select(B.Select(hv, xv.One()), key), zero.L[i])
		}
		x.valueFacts(val)
	}
	if v.CommaOk {
		return Value{T: v.Type(), L: append(append([]*Term{}, val.L...), has)}
	}
	return Value{T: v.Type(), L: val.L}
}

func (fr *Frame) mapUpdate(v *ssa.MapUpdate, pc *Term, st *State, pos string) {
	x := fr.x
	B := x.B
	mv := fr.val(v.Map).One()
	name, ks, m := x.mapHeapNames(v.Map.Type())
	if ks == nil {
		return
	}
	key := fr.val(v.Key).One()
	val := fr.val(v.Value)
	hn := name + "#has"
	hh := x.heapRead(st, hn, ArraySort(IntSort, ArraySort(ks, BoolSort)))
	x.heapSet(st, hn, B.Store(hh, mv, B.Store(B.Select(hh, mv), key, B.True())))
	for i, lf := range LayoutOf(m.Elem()).Leaves {
		n := name + "#val" + lf.Path
		hv := x.heapRead(st, n, ArraySort(IntSort, ArraySort(ks, lf.Sort)))
		x.heapSet(st, n, B.Store(hv, mv, B.Store(B.Select(hv, mv), key, val.L[i])))
	}
}

func (fr *Frame) next(v *ssa.Next, st *State) Value {
	x := fr.x
	B := x.B
	tup := v.Type().(*types.Tuple)
	ok := B.Fresh("next_ok", BoolSort)
	out := []*Term{ok}
	kv := x.freshValue(tup.At(1).Type(), "next_k")
	vv := x.freshValue(tup.At(2).Type(), "next_v")
	if !v.IsString {
		// map iteration: the yielded pair is in the map
		it := fr.val(v.Iter).One()
		if mval, found := x.rangeOf[it]; found {
			name, ks, m := x.mapHeapNames(mval.T)
			if ks != nil && len(kv.L) == 1 {
				hh := x.heapRead(st, name+"#has", ArraySort(IntSort, ArraySort(ks, BoolSort)))
				x.assume(ok, B.Select(B.Select(hh, mval.One()), kv.L[0]), "range yields present key")
				for i, lf := range LayoutOf(m.Elem()).Leaves {
					if i < len(vv.L) {
						hv := x.heapRead(st, name+"#val"+lf.Path, ArraySort(IntSort, ArraySort(ks, lf.Sort)))
						x.assume(ok, B.Eq(vv.L[i], B.Select(B.Select(hv, mval.One()), kv.L[0])), "range yields stored value")
					}
				}
			}
		}
	}
	out = append(out, kv.L...)
	out = append(out, vv.L...)
	return Value{T: v.Type(), L: out}
}

// ---- loops ---------------------------------------------------------------

// loopModifies computes what a loop may change: heap names, cells, and
// whether everything must be forgotten.
type modSet struct {
	all   bool
	names map[string]bool
	cells map[int]bool
}

func (fr *Frame) cutLoop(lp *Loop, pc *Term, st *State) (*Term, *State) {
	x := fr.x
	// 1. invariant on entry
	var invs []*Clause
	if fr.contract != nil {
		for _, inv := range fr.contract.LoopInv[lp.Ordinal] {
			if x.active(inv) {
				invs = append(invs, inv)
			}
		}
	}
	fr.loopEntry[lp.Header] = st.clone()
	for _, inv := range invs {
		if x.mode.Functional && fr.isRoot {
			t := fr.evalInvariant(inv, lp, st, nil)
			lbl := inv.Label
			if lbl == "" {
				lbl = truncate(inv.Src, 40)
			}
			o := x.oblige("inv-entry", fmt.Sprintf("loop%d:%s", lp.Ordinal, lbl), x.W.pos(firstPos(lp.Header)), pc, t)
			o.Extra = map[string]string{"invariant": inv.Src}
		}
	}
	// 2. havoc
	st = st.clone()
	ms := fr.loopModSet(lp, st)
	if os.Getenv("GOVC_TRACE") != "" {
		var ns []string
		for n := range ms.names {
			ns = append(ns, n)
		}
		sort.Strings(ns)
		fmt.Fprintf(os.Stderr, "trace: %s loop %d modset all=%v names=%v cells=%d\n", shortFuncName(fr.fn), lp.Ordinal, ms.all, ns, len(ms.cells))
	}
	if ms.all {
		x.havocAll(st)
	}
	{
		var names []string
		for n := range ms.names {
			names = append(names, n)
		}
		sort.Strings(names)
		if len(names) > 0 {
			x.havocNames(st, names)
		}
	}
	for _, id := range sortedCellIDs(ms.cells) {
		if old, ok := st.cells[id]; ok {
			st.cells[id] = x.freshValue(old.T, "loopcell")
		}
	}
	for _, in := range lp.Header.Instrs {
		phi, ok := in.(*ssa.Phi)
		if !ok {
			break
		}
		nm := phi.Comment
		if nm == "" {
			nm = phi.Name()
		}
		entryVal := fr.vals[phi]
		fr.vals[phi] = x.freshValue(phi.Type(), "loop_"+nm)
		if dir := monotonePhi(phi, lp, fr.li); dir != 0 && len(entryVal.L) == 1 && entryVal.L[0].Sort == IntSort {
			ai := autoInv{phi: phi, dir: dir, bound: entryVal.L[0]}
			fr.autoInv[lp.Header] = append(fr.autoInv[lp.Header], ai)
			if dir > 0 {
				x.assume(pc, x.B.Le(ai.bound, fr.vals[phi].One()), "automatic counter invariant")
			} else {
				x.assume(pc, x.B.Le(fr.vals[phi].One(), ai.bound), "automatic counter invariant")
			}
			if dir > 0 {
				if y, kind := guardBound(phi, lp, fr.li); y != nil {
					if yv, ok := fr.tryVal(y); ok && len(yv.L) == 1 && yv.L[0].Sort == IntSort {
						gi := autoInv{phi: phi, dir: kind, bound: yv.L[0]}
						fr.autoInv[lp.Header] = append(fr.autoInv[lp.Header], gi)
						var ent, inv *Term
						if kind == 2 {
							ent, inv = x.B.Lt(entryVal.L[0], gi.bound), x.B.Lt(fr.vals[phi].One(), gi.bound)
						} else {
							ent, inv = x.B.Le(entryVal.L[0], gi.bound), x.B.Le(fr.vals[phi].One(), gi.bound)
						}
						o := x.oblige("autoinv", fmt.Sprintf("loop%d:%s:bound-entry", lp.Ordinal, nm), x.W.pos(firstPos(lp.Header)), pc, ent)
						o.Extra = map[string]string{"what": "automatically inferred loop-guard bound holds on entry"}
						x.assume(pc, inv, "automatic guard-bound invariant")
					}
				}
			}
		}
	}
	// 3. assume invariant
	for _, inv := range invs {
		t := fr.evalInvariant(inv, lp, st, nil)
		x.assume(pc, t, "loop invariant "+inv.Src)
	}
	return pc, st
}

func truncate(s string, n int) string {
	s = strings.Join(strings.Fields(s), " ")
	if len(s) > n {
		return s[:n]
	}
	return s
}

func firstPos(b *ssa.BasicBlock) token.Pos {
	for _, in := range b.Instrs {
		if p := in.Pos(); p.IsValid() {
			return p
		}
	}
	return token.NoPos
}

func (fr *Frame) checkBackEdge(from, to *ssa.BasicBlock, pc *Term, st *State) {
	x := fr.x
	lp := fr.li.ByHeader[to]
	if lp == nil {
		return
	}
	for _, ai := range fr.autoInv[to] {
		for k, p := range to.Preds {
			if p != from {
				continue
			}
			nv := fr.val(ai.phi.Edges[k]).One()
			var c *Term
			switch ai.dir {
			case 1:
				c = x.B.Le(ai.bound, nv)
			case -1:
				c = x.B.Le(nv, ai.bound)
			case 2:
				c = x.B.Lt(nv, ai.bound)
			case 3:
				c = x.B.Le(nv, ai.bound)
			}
			nm := ai.phi.Comment
			if nm == "" {
				nm = ai.phi.Name()
			}
			if (ai.dir == 1 || ai.dir == -1) && is64(ai.phi.Type()) {
				// 64-bit counters stepping by a constant cannot wrap in any
				// feasible execution (listed in the trusted base)
				continue
			}
			o := x.oblige("autoinv", fmt.Sprintf("loop%d:%s", lp.Ordinal, nm), x.W.pos(firstPos(from)), pc, c)
			o.Extra = map[string]string{"what": "automatically inferred monotone-counter invariant is preserved"}
		}
	}
	if fr.contract == nil || !x.mode.Functional || !fr.isRoot {
		return
	}
	// phi values as seen from this edge
	phiVals := map[*ssa.Phi]Value{}
	for _, in := range to.Instrs {
		phi, ok := in.(*ssa.Phi)
		if !ok {
			break
		}
		for k, p := range to.Preds {
			if p == from {
				phiVals[phi] = fr.val(phi.Edges[k])
			}
		}
	}
	for _, inv := range fr.contract.LoopInv[lp.Ordinal] {
		if !x.active(inv) {
			continue
		}
		t := fr.evalInvariant(inv, lp, st, phiVals)
		lbl := inv.Label
		if lbl == "" {
			lbl = truncate(inv.Src, 40)
		}
		o := x.oblige("inv-preserved", fmt.Sprintf("loop%d:%s", lp.Ordinal, lbl), x.W.pos(firstPos(from)), pc, t)
		o.Extra = map[string]string{"invariant": inv.Src}
	}
}

func (fr *Frame) runDefers(pc *Term, st *State) *Term {
	x := fr.x
	B := x.B
	for i := len(fr.defers) - 1; i >= 0; i-- {
		d := fr.defers[i]
		// the deferred call runs iff it was registered on this path; since
		// path conditions are absolute, registration on this path is d.guard
		// being implied by the current path... we approximate by executing
		// under pc ∧ d.guard and merging.
		g := B.And(pc, d.guard)
		if g.IsFalse() {
			continue
		}
		if fr.curBlock != nil && d.block != nil && !fr.reaches(d.block, fr.curBlock) {
			continue
		}
		s1 := st.clone()
		wasDefer := fr.inDefer
		fr.inDefer = true
		npc := fr.doCall(nil, d.call, d.fnv, d.args, nil, g, s1, x.W.pos(d.pos), false)
		fr.inDefer = wasDefer
		// merge s1 (under d.guard) with st (under !d.guard)
		if B.And(pc, B.Not(d.guard)).IsFalse() || d.guard == pc || impliesSyntactically(pc, d.guard) {
			*st = *s1
			_ = npc
		} else {
			m := x.mergeStates([]*Term{d.guard, B.Not(d.guard)}, []*State{s1, st})
			*st = *m
		}
	}
	return pc
}

// impliesSyntactically reports whether a (a conjunction) contains all
// conjuncts of b.
func impliesSyntactically(a, b *Term) bool {
	if a == b || b.IsTrue() {
		return true
	}
	conj := func(t *Term) []*Term {
		if t.Op == "and" {
			return t.Args
		}
		return []*Term{t}
	}
	have := map[int]bool{}
	for _, c := range conj(a) {
		have[c.id] = true
	}
	for _, c := range conj(b) {
		if !have[c.id] {
			return false
		}
	}
	return true
}

// monotonePhi reports +1 if every back-edge operand of phi is phi+c (c>0),
// -1 if every one is phi-c, 0 otherwise.
func monotonePhi(phi *ssa.Phi, lp *Loop, li *LoopInfo) int {
	b := phi.Block()
	dir := 0
	for k, p := range b.Preds {
		if !li.BackEdge[[2]int{p.Index, b.Index}] {
			continue
		}
		d := stepOf(phi.Edges[k], phi, 0)
		if d == 0 {
			return 0
		}
		if dir != 0 && d != dir {
			return 0
		}
		dir = d
	}
	return dir
}

func stepOf(v ssa.Value, phi *ssa.Phi, depth int) int {
	if depth > 4 {
		return 0
	}
	switch u := v.(type) {
	case *ssa.BinOp:
		c, ok := u.Y.(*ssa.Const)
		if !ok || c.Value == nil || c.Value.Kind() != constant.Int {
			return 0
		}
		sgn := constant.Sign(c.Value)
		if sgn == 0 {
			return 0
		}
		inner := 0
		if u.X == phi {
			inner = 2 // marker: direct
		} else {
			inner = stepOf(u.X, phi, depth+1)
		}
		switch u.Op {
		case token.ADD:
			if inner == 2 {
				return sgn
			}
			if inner == sgn {
				return sgn
			}
		case token.SUB:
			if inner == 2 {
				return -sgn
			}
			if inner == -sgn {
				return -sgn
			}
		}
		return 0
	case *ssa.Phi:
		// a phi merging several monotone updates of the loop phi (continue paths)
		if u == phi {
			return 0
		}
		dir := 0
		for _, e := range u.Edges {
			var d int
			if e == phi {
				continue // unchanged on this path
			}
			d = stepOf(e, phi, depth+1)
			if d == 0 {
				return 0
			}
			if dir != 0 && d != dir {
				return 0
			}
			dir = d
		}
		return dir
	}
	return 0
}

func is64(t types.Type) bool {
	b, ok := t.Underlying().(*types.Basic)
	if !ok {
		return false
	}
	bits, _ := intBits(b)
	return bits == 64
}

// reaches reports whether block b can be reached from block a in the
// acyclic CFG (back edges removed).
func (fr *Frame) reaches(a, b *ssa.BasicBlock) bool {
	if a == b {
		return true
	}
	seen := map[*ssa.BasicBlock]bool{}
	var dfs func(n *ssa.BasicBlock) bool
	dfs = func(n *ssa.BasicBlock) bool {
		if n == b {
			return true
		}
		if seen[n] {
			return false
		}
		seen[n] = true
		for _, s := range n.Succs {
			if fr.li.BackEdge[[2]int{n.Index, s.Index}] {
				continue
			}
			if dfs(s) {
				return true
			}
		}
		return false
	}
	return dfs(a)
}

// termEq is equality with the one piece of string extensionality the code
// relies on: a string equals "" iff its length is 0.
func (x *X) termEq(a, b *Term) *Term {
	if a.Sort == StrSort {
		empty := x.strLit("")
		if a == empty && b != empty {
			return x.B.Eq(x.strLen(b), x.B.Int(0))
		}
		if b == empty && a != empty {
			return x.B.Eq(x.strLen(a), x.B.Int(0))
		}
	}
	return x.B.Eq(a, b)
}

// checkLoopExit: "loop N: exit [label] e" clauses hold on every edge that
// leaves loop N (the header's exit as well as every break).
func (fr *Frame) checkLoopExit(from, to *ssa.BasicBlock, pc *Term, st *State) {
	x := fr.x
	if fr.contract == nil || !x.mode.Functional || !fr.isRoot || len(fr.contract.LoopExit) == 0 {
		return
	}
	// leaving the function (return / panic blocks) is not "leaving the loop" in this sense
	if len(to.Succs) == 0 {
		return
	}
	for _, lp := range fr.li.Loops {
		if !lp.Blocks[from] || lp.Blocks[to] {
			continue
		}
		// only edges into the block(s) the loop condition itself exits to: a break or a
		// fall-out lands there; a tail of the body that never loops back (and is therefore
		// not part of the natural loop) is not an exit in the sense of the clause
		natural := false
		for _, s := range lp.Header.Succs {
			if !lp.Blocks[s] && s == to {
				natural = true
			}
		}
		if !natural {
			continue
		}
		for _, cl := range fr.contract.LoopExit[lp.Ordinal] {
			if !x.active(cl) {
				continue
			}
			if os.Getenv("GOVC_TRACE") != "" {
				fmt.Fprintf(os.Stderr, "trace: loop-exit check loop %d edge %d(%s) -> %d(%s)\n", lp.Ordinal, from.Index, from.Comment, to.Index, to.Comment)
			}
			saved := fr.curBlock
			fr.curBlock = from
			t := fr.evalInvariant(cl, lp, st, nil)
			fr.curBlock = saved
			lbl := cl.Label
			if lbl == "" {
				lbl = truncate(cl.Src, 40)
			}
			o := x.oblige("loop-exit", fmt.Sprintf("loop%d:%s", lp.Ordinal, lbl), x.W.pos(firstPos(from)), pc, t)
			o.Extra = map[string]string{"exit condition": cl.Src}
			x.assume(pc, t, "loop exit condition "+cl.Src)
		}
	}
}
