package main

import (
	"fmt"
	"go/ast"
	"go/token"
	"go/types"
	"os"
	"path/filepath"
	"sort"
	"strings"

	"golang.org/x/tools/go/packages"
	"golang.org/x/tools/go/ssa"
	"golang.org/x/tools/go/ssa/ssautil"
)

const repoMod = "github.com/gokrazy/rsync"

// World is everything loaded from /repo plus the specifications.
type World struct {
	RepoDir string
	Fset    *token.FileSet
	Prog    *ssa.Program
	Pkgs    []*packages.Package
	SPkgs   map[string]*ssa.Package
	Funcs   map[string]*ssa.Function // short name -> function (repo functions incl. closures)
	AllFn   map[*ssa.Function]bool
	Specs   *SpecSet
	loops   map[*ssa.Function]*LoopInfo
	modsets map[*ssa.Function]*ModSet
	harmlessExtern map[string]bool
	UsedMirror []string
	NoInline map[string]bool
	InterestingTypes []types.Type
	escaped  map[string]bool // heap-name prefixes (F:T.path) whose address escapes
	ghostModSets map[*ssa.Function]map[string]bool
	lemmaDone map[string]bool
	Also     map[string][]string
}

func shortPkgPath(path string) string {
	switch {
	case path == repoMod:
		return "rsync"
	case strings.HasPrefix(path, repoMod+"/internal/"):
		return strings.TrimPrefix(path, repoMod+"/internal/")
	case strings.HasPrefix(path, repoMod+"/"):
		return strings.TrimPrefix(path, repoMod+"/")
	}
	return path
}

func shortFuncName(fn *ssa.Function) string {
	s := fn.String()
	s = strings.ReplaceAll(s, repoMod+"/internal/", "")
	s = strings.ReplaceAll(s, repoMod+"/", "")
	s = strings.ReplaceAll(s, repoMod+".", "rsync.")
	return s
}

func inRepo(fn *ssa.Function) bool {
	if fn == nil {
		return false
	}
	for fn.Parent() != nil {
		fn = fn.Parent()
	}
	if fn.Pkg == nil {
		// methods of instantiated generics / wrappers
		if o := fn.Object(); o != nil && o.Pkg() != nil {
			return strings.HasPrefix(o.Pkg().Path(), repoMod)
		}
		return false
	}
	return strings.HasPrefix(fn.Pkg.Pkg.Path(), repoMod)
}

func LoadWorld(repoDir string) (*World, error) {
	cfg := &packages.Config{
		Mode:       packages.LoadAllSyntax,
		Dir:        repoDir,
		BuildFlags: []string{"-tags=verif"},
		Env:        append(os.Environ(), "GOFLAGS=-mod=mod", "GOPROXY=off"),
	}
	pkgs, err := packages.Load(cfg, "./...")
	if err != nil {
		return nil, err
	}
	nerr := 0
	packages.Visit(pkgs, nil, func(p *packages.Package) {
		for _, e := range p.Errors {
			if strings.HasPrefix(p.PkgPath, repoMod) {
				fmt.Fprintf(os.Stderr, "load error: %v\n", e)
				nerr++
			}
		}
	})
	if nerr > 0 {
		return nil, fmt.Errorf("%d package errors in /repo (does it compile?)", nerr)
	}
	prog, spkgs := ssautil.AllPackages(pkgs, ssa.GlobalDebug|ssa.InstantiateGenerics)
	prog.Build()
	w := &World{RepoDir: repoDir, Prog: prog, Pkgs: pkgs, SPkgs: map[string]*ssa.Package{}, Funcs: map[string]*ssa.Function{},
		AllFn: map[*ssa.Function]bool{}, Specs: NewSpecSet(), loops: map[*ssa.Function]*LoopInfo{}, harmlessExtern: map[string]bool{}, NoInline: map[string]bool{}, lemmaDone: map[string]bool{}, Also: map[string][]string{}}
	if len(pkgs) > 0 {
		w.Fset = pkgs[0].Fset
	}
	_ = spkgs
	for _, sp := range prog.AllPackages() {
		if sp != nil {
			w.SPkgs[sp.Pkg.Path()] = sp
		}
	}
	for fn := range ssautil.AllFunctions(prog) {
		w.AllFn[fn] = true
		if inRepo(fn) {
			w.Funcs[shortFuncName(fn)] = fn
		}
	}
	// contracts: //@ lines in contracts_verif.go of repo packages
	for _, p := range pkgs {
		if !strings.HasPrefix(p.PkgPath, repoMod) {
			continue
		}
		for i, f := range p.Syntax {
			name := p.CompiledGoFiles[i]
			if filepath.Base(name) != "contracts_verif.go" {
				continue
			}
			if err := w.loadContractFile(name, f); err != nil {
				return nil, err
			}
		}
	}
	return w, nil
}

func (w *World) loadContractFile(name string, f *ast.File) error {
	var lines []string
	var nos []int
	for _, cg := range f.Comments {
		for _, c := range cg.List {
			txt := c.Text
			if strings.HasPrefix(txt, "//@") {
				lines = append(lines, strings.TrimPrefix(txt, "//@"))
				nos = append(nos, w.Fset.Position(c.Pos()).Line)
			}
		}
	}
	return w.Specs.ParseSpecText(name, lines, nos)
}

// LoadSpecFile loads a plain-text spec file (externals.spec): every
// non-comment line is a contract-language line.
func (w *World) LoadSpecFile(path string) error {
	data, err := os.ReadFile(path)
	if err != nil {
		return err
	}
	var lines []string
	var nos []int
	for i, l := range strings.Split(string(data), "\n") {
		lines = append(lines, l)
		nos = append(nos, i+1)
	}
	return w.Specs.ParseSpecText(path, lines, nos)
}

func (w *World) Func(short string) *ssa.Function { return w.Funcs[short] }

func (w *World) pos(p token.Pos) string {
	if !p.IsValid() {
		return "-"
	}
	pp := w.Fset.Position(p)
	rel, err := filepath.Rel(w.RepoDir, pp.Filename)
	if err != nil || strings.HasPrefix(rel, "..") {
		rel = pp.Filename
	}
	return fmt.Sprintf("%s:%d", rel, pp.Line)
}

// ContractFor returns the contract for fn (explicit or via a default rule).
func (w *World) ContractFor(fn *ssa.Function) *Contract {
	name := shortFuncName(fn)
	if c, ok := w.Specs.Contracts[name]; ok {
		return c
	}
	return nil
}

func (w *World) DefaultsFor(fn *ssa.Function) []*DefaultRule {
	name := shortFuncName(fn)
	var out []*DefaultRule
	for _, d := range w.Specs.Defaults {
		if matchPattern(d.Pattern, name) {
			out = append(out, d)
		}
	}
	return out
}

func matchPattern(pat, name string) bool {
	return strings.HasPrefix(name, strings.TrimSuffix(pat, "*"))
}

// ---- loops ---------------------------------------------------------------

type Loop struct {
	Header  *ssa.BasicBlock
	Blocks  map[*ssa.BasicBlock]bool
	Ordinal int // source order among loops of the function
}

type LoopInfo struct {
	Loops    []*Loop
	ByHeader map[*ssa.BasicBlock]*Loop
	BackEdge map[[2]int]bool // [from,to] block indices
	Order    []*ssa.BasicBlock
}

func (w *World) Loops(fn *ssa.Function) *LoopInfo {
	if li, ok := w.loops[fn]; ok {
		return li
	}
	li := &LoopInfo{ByHeader: map[*ssa.BasicBlock]*Loop{}, BackEdge: map[[2]int]bool{}}
	w.loops[fn] = li
	if len(fn.Blocks) == 0 {
		return li
	}
	for _, b := range fn.Blocks {
		for _, s := range b.Succs {
			if s.Dominates(b) {
				li.BackEdge[[2]int{b.Index, s.Index}] = true
				lp := li.ByHeader[s]
				if lp == nil {
					lp = &Loop{Header: s, Blocks: map[*ssa.BasicBlock]bool{s: true}}
					li.ByHeader[s] = lp
					li.Loops = append(li.Loops, lp)
				}
				// natural loop: nodes that reach b without passing s
				var stack []*ssa.BasicBlock
				if !lp.Blocks[b] {
					lp.Blocks[b] = true
					stack = append(stack, b)
				}
				for len(stack) > 0 {
					n := stack[len(stack)-1]
					stack = stack[:len(stack)-1]
					for _, p := range n.Preds {
						if !lp.Blocks[p] {
							lp.Blocks[p] = true
							stack = append(stack, p)
						}
					}
				}
			}
		}
	}
	// ordinal by source position of the header's first positioned instruction
	posOf := func(b *ssa.BasicBlock) token.Pos {
		best := token.NoPos
		for blk := range li.ByHeader[b].Blocks {
			for _, in := range blk.Instrs {
				if p := in.Pos(); p.IsValid() && (best == token.NoPos || p < best) {
					best = p
				}
			}
		}
		return best
	}
	sort.Slice(li.Loops, func(i, j int) bool {
		pi, pj := posOf(li.Loops[i].Header), posOf(li.Loops[j].Header)
		if pi != pj {
			return pi < pj
		}
		return li.Loops[i].Header.Index < li.Loops[j].Header.Index
	})
	for i, lp := range li.Loops {
		lp.Ordinal = i
	}
	// topological order of the DAG without back edges (reverse post-order)
	seen := map[*ssa.BasicBlock]bool{}
	var post []*ssa.BasicBlock
	var dfs func(b *ssa.BasicBlock)
	dfs = func(b *ssa.BasicBlock) {
		seen[b] = true
		for _, s := range b.Succs {
			if li.BackEdge[[2]int{b.Index, s.Index}] || seen[s] {
				continue
			}
			dfs(s)
		}
		post = append(post, b)
	}
	dfs(fn.Blocks[0])
	if fn.Recover != nil && !seen[fn.Recover] {
		// recover block not modelled
	}
	for i := len(post) - 1; i >= 0; i-- {
		li.Order = append(li.Order, post[i])
	}
	return li
}

// named result / param lookup helpers

func paramNames(fn *ssa.Function) []string {
	var out []string
	for _, p := range fn.Params {
		out = append(out, p.Name())
	}
	return out
}

func resultNames(sig *types.Signature) []string {
	var out []string
	for i := 0; i < sig.Results().Len(); i++ {
		n := sig.Results().At(i).Name()
		if n == "" || n == "_" {
			if types.Identical(sig.Results().At(i).Type(), types.Universe.Lookup("error").Type()) {
				n = "err"
			} else if sig.Results().Len() == 1 || (i == 0) {
				n = "result"
			} else {
				n = fmt.Sprintf("result%d", i)
			}
		}
		out = append(out, n)
	}
	return out
}

// computeEscapes finds the struct fields whose address is used for anything
// but an immediate load, store or further field/element selection. Only such
// fields can be written through a pointer of unknown provenance; all other
// fields are written exclusively by Store instructions that name them,
// which the mod-set analysis sees.
func (w *World) computeEscapes() {
	if w.escaped != nil {
		return
	}
	w.escaped = map[string]bool{}
	var check func(v ssa.Value, name string)
	check = func(v ssa.Value, name string) {
		refs := v.Referrers()
		if refs == nil {
			return
		}
		for _, r := range *refs {
			switch u := r.(type) {
			case *ssa.UnOp:
				if u.Op == token.MUL {
					continue
				}
				w.escaped[name] = true
			case *ssa.Store:
				if u.Addr == v && u.Val != v {
					continue
				}
				w.escaped[name] = true
			case *ssa.FieldAddr:
				if u.X == v {
					stt := u.X.Type().Underlying().(*types.Pointer).Elem().Underlying().(*types.Struct)
					check(u, name+"."+stt.Field(u.Field).Name())
					continue
				}
				w.escaped[name] = true
			case *ssa.IndexAddr:
				if u.X == v {
					// element of an embedded array: elements live in E: space
					continue
				}
				w.escaped[name] = true
			case *ssa.DebugRef:
				continue
			default:
				w.escaped[name] = true
			}
		}
	}
	for _, fn := range w.Funcs {
		for _, b := range fn.Blocks {
			for _, in := range b.Instrs {
				fa, ok := in.(*ssa.FieldAddr)
				if !ok {
					continue
				}
				if _, inner := fa.X.(*ssa.FieldAddr); inner {
					continue // handled from the chain root
				}
				stt := fa.X.Type().Underlying().(*types.Pointer).Elem()
				st := stt.Underlying().(*types.Struct)
				root := "F:" + heapTypeName(stt)
				if _, isElem := fa.X.(*ssa.IndexAddr); isElem {
					root = "E:" + heapTypeName(stt)
				}
				check(fa, root+"."+st.Field(fa.Field).Name())
			}
		}
	}
}

// unstable reports whether a heap variable may be written through pointers
// of unknown provenance (and therefore by a call we know nothing about).
func (w *World) unstable(name string) bool {
	w.computeEscapes()
	if !strings.HasPrefix(name, "F:") {
		return !strings.HasPrefix(name, "ghost:")
	}
	for p := range w.escaped {
		if strings.HasPrefix(name, p) || strings.HasPrefix(p, name) {
			return true
		}
	}
	return false
}
