package main

import (
	"fmt"
	"os"

	"golang.org/x/tools/go/packages"
	"golang.org/x/tools/go/ssa"
	"golang.org/x/tools/go/ssa/ssautil"
)

func main() {
	cfg := &packages.Config{Mode: packages.LoadAllSyntax, Dir: "/repo", BuildFlags: []string{"-tags=verif"}}
	pkgs, err := packages.Load(cfg, "./...")
	if err != nil {
		fmt.Println(err)
		os.Exit(2)
	}
	n := packages.PrintErrors(pkgs)
	prog, spkgs := ssautil.AllPackages(pkgs, ssa.GlobalDebug|ssa.InstantiateGenerics)
	prog.Build()
	fmt.Println(len(pkgs), len(spkgs), n)
}
