package main

import (
	"flag"
	"fmt"
	"os"
	"sort"
	"strings"
	"time"
)

func main() {
	if len(os.Args) < 2 {
		fmt.Fprintln(os.Stderr, "usage: govc check <ID> [--tier quick|thorough] | govc func <name> --mode m1,m2 [--prop ID] | govc list [pattern]")
		os.Exit(2)
	}
	defer cleanupScratch()
	switch os.Args[1] {
	case "check":
		os.Exit(cmdCheck(os.Args[2:]))
	case "func":
		os.Exit(cmdFunc(os.Args[2:]))
	case "list":
		os.Exit(cmdList(os.Args[2:]))
	case "ssa":
		os.Exit(cmdSSA(os.Args[2:]))
	case "audit":
		os.Exit(cmdAudit(os.Args[2:]))
	case "ghostmods":
		w, err := loadWorldWithSpecs()
		if err != nil {
			fmt.Fprintln(os.Stderr, err)
			os.Exit(2)
		}
		for n, fn := range w.Funcs {
			if strings.Contains(n, os.Args[2]) {
				fmt.Println(n, w.ghostMods(fn))
			}
		}
	default:
		fmt.Fprintln(os.Stderr, "unknown command", os.Args[1])
		os.Exit(2)
	}
}

func cmdList(args []string) int {
	w, err := loadWorldWithSpecs()
	if err != nil {
		fmt.Fprintln(os.Stderr, err)
		return 2
	}
	var names []string
	for n := range w.Funcs {
		if len(args) == 0 || strings.Contains(n, args[0]) {
			names = append(names, n)
		}
	}
	sort.Strings(names)
	for _, n := range names {
		fmt.Printf("%s\t%d instrs\t%d loops\n", n, countInstrs(w.Funcs[n]), len(w.Loops(w.Funcs[n]).Loops))
	}
	return 0
}

func cmdSSA(args []string) int {
	w, err := loadWorldWithSpecs()
	if err != nil {
		fmt.Fprintln(os.Stderr, err)
		return 2
	}
	fn := w.Func(args[0])
	if fn == nil {
		fmt.Fprintln(os.Stderr, "no such function")
		return 2
	}
	fn.WriteTo(os.Stdout)
	return 0
}

func cmdFunc(args []string) int {
	fs := flag.NewFlagSet("func", flag.ExitOnError)
	mode := fs.String("mode", "sweep", "comma-separated modes")
	prop := fs.String("prop", "", "property id for tagged clauses")
	dump := fs.String("dump", "", "dump SMT of obligations whose name contains this")
	timeout := fs.Duration("timeout", 10*time.Second, "per-obligation timeout")
	verbose := fs.Bool("v", false, "verbose")
	split := fs.String("split", "", "for failed obligations whose name contains this: prove each conjunct separately")
	evals := fs.String("eval", "", "semicolon-separated spec expressions to evaluate in the model of each failed obligation (post-state env)")
	name := args[0]
	fs.Parse(args[1:])
	w, err := loadWorldWithSpecs()
	if err != nil {
		fmt.Fprintln(os.Stderr, err)
		return 2
	}
	fn := w.Func(name)
	if fn == nil {
		fmt.Fprintln(os.Stderr, "no such function:", name)
		return 2
	}
	start := time.Now()
	x, err := w.VerifyFunc(fn, modeFromNames(strings.Split(*mode, ",")), *prop)
	if err != nil {
		fmt.Fprintln(os.Stderr, "ERROR:", err)
		return 2
	}
	fmt.Printf("%s: %d obligations, %d assumptions, exec %.2fs\n", name, len(x.obligs), len(x.assums), time.Since(start).Seconds())
	res := x.discharge(*timeout, 16)
	bad := 0
	for _, r := range res {
		if r.Status == "discharged" || r.Status == "trivial" {
			if *verbose {
				fmt.Printf("  ok   %-70s %s %.2fs %s\n", r.Obl.Name, r.Solver, r.Seconds, r.Obl.Pos)
			}
		} else {
			bad++
			fmt.Printf("  %-7s %-70s %s %.2fs  at %s\n", r.Status, r.Obl.Name, r.Solver, r.Seconds, r.Obl.Pos)
			if r.Status == "failed" {
				fmt.Printf("          model: %s\n", modelSummary(r.Model, 14))
				if r.Obl.Cond.Op == "and" || (r.Obl.Cond.Op == "=>" && r.Obl.Cond.Args[1].Op == "and") {
					// which conjuncts are false in a model?
					cj := r.Obl.Cond
					if cj.Op == "=>" {
						cj = cj.Args[1]
					}
					sr := Solve(x.buildQueryWatch(r.Obl, cj.Args), "conj", 20*time.Second)
					vals := parseGetValue(sr.Raw)
					for i, c := range cj.Args {
						if vals[fmt.Sprintf("w!%d", i)] == "false" {
							fmt.Printf("          false conjunct %d: %s\n", i, truncateStr(c.String(), 300))
						}
					}
				}
				if *evals != "" {
					env := x.postEnv
					if env == nil {
						env = x.rootEnv
					}
					var watch []*Term
					var names []string
					for _, es := range strings.Split(*evals, ";") {
						es = strings.TrimSpace(es)
						n, err := ParseSpecExpr(es)
						if err != nil {
							fmt.Println("          eval:", err)
							continue
						}
						var t *Term
						if err := safeEval(func() { t = env.term(env.eval(n)) }); err != nil {
							fmt.Println("          eval:", err)
							continue
						}
						watch = append(watch, t)
						names = append(names, es)
					}
					sr := Solve(x.buildQueryWatch(r.Obl, watch), "eval", 20*time.Second)
					vals := parseGetValue(sr.Raw)
					for i, n := range names {
						fmt.Printf("          eval %s = %s\n", n, vals[fmt.Sprintf("w!%d", i)])
					}
				}
			}
			if *split != "" && strings.Contains(r.Obl.Name, *split) && r.Obl.Cond.Op == "and" {
				for i, c := range r.Obl.Cond.Args {
					o2 := *r.Obl
					o2.Cond = c
					q, _, _ := x.buildQuery(&o2, false, false)
					sr := Solve(q, "split", *timeout)
					fmt.Printf("          conjunct %d: %s (%s %.1fs) %s\n", i, sr.Status, sr.Solver, sr.Seconds, truncateStr(c.String(), 160))
				}
			}
			if r.Status == "unknown" && strings.Contains(r.Raw, "error") {
				fmt.Printf("          solver said: %s\n", truncateStr(r.Raw, 300))
			}
		}
		if *dump != "" && strings.Contains(r.Obl.Name, *dump) {
			s, _, _ := x.buildQuery(r.Obl, true, false)
			fn := fmt.Sprintf("/var/tmp/verif-scratch/dump_%s.smt2", sanitize(r.Obl.Name))
			os.WriteFile(fn, []byte(s), 0o644)
			fmt.Println("  dumped to", fn)
		}
	}
	if os.Getenv("GOVC_COVER") != "" {
		// which return statements are reachable under the assumptions? (debugging aid for vacuity)
		for _, rp := range x.rootRets {
			o := &Obligation{Name: "cover", Kind: "vacuity", Guard: rp.pc, Cond: x.B.False(), NAssum: len(x.assums)}
			q, _, _ := x.buildQuery(o, false, false)
			os.WriteFile(fmt.Sprintf("/var/tmp/verif-scratch/cover_%s.smt2", sanitize(rp.pos)), []byte(q), 0o644)
			sr := Solve(q, "cover", *timeout)
			fmt.Printf("  cover: return at %s: %s (%s, %.1fs)\n", rp.pos, map[string]string{"sat": "reachable", "unsat": "UNREACHABLE", "unknown": "unknown", "timeout": "unknown(timeout)"}[sr.Status], sr.Solver, sr.Seconds)
		}
	}
	for _, wn := range x.warnings {
		fmt.Println("  warning:", wn)
	}
	if *verbose {
		var ks []string
		for k, n := range x.unknownCalls {
			ks = append(ks, fmt.Sprintf("%s×%d", k, n))
		}
		sort.Strings(ks)
		fmt.Println("  unknown calls:", strings.Join(ks, ", "))
	}
	fmt.Printf("  %d/%d discharged, total %.2fs\n", len(res)-bad, len(res), time.Since(start).Seconds())
	if bad > 0 {
		return 1
	}
	return 0
}

func modelSummary(m map[string]string, n int) string {
	var ks []string
	for k := range m {
		if strings.HasPrefix(k, "p_") || strings.HasPrefix(k, "ret_") || strings.HasPrefix(k, "loop_") || strings.HasPrefix(k, "fv_") {
			ks = append(ks, k)
		}
	}
	sort.Strings(ks)
	var out []string
	for i, k := range ks {
		if i >= n {
			out = append(out, "...")
			break
		}
		out = append(out, k+"="+m[k])
	}
	return strings.Join(out, " ")
}


// cmdAudit lists, for every postcondition of an in-repo contract, the checks
// that prove it (function is a functional root there and the clause is
// active). A clause no check proves is an assumption at its call sites.
func cmdAudit(args []string) int {
	w, err := loadWorldWithSpecs()
	if err != nil {
		fmt.Fprintln(os.Stderr, err)
		return 2
	}
	checks, err := loadChecks()
	if err != nil {
		fmt.Fprintln(os.Stderr, err)
		return 2
	}
	var props []string
	for p := range checks {
		props = append(props, p)
	}
	sort.Strings(props)
	var names []string
	for n, ct := range w.Specs.Contracts {
		if !ct.Extern && len(ct.Ensures) > 0 {
			names = append(names, n)
		}
	}
	sort.Strings(names)
	unproved := 0
	for _, n := range names {
		ct := w.Specs.Contracts[n]
		if w.Func(n) == nil {
			fmt.Printf("%-60s NO SUCH FUNCTION (contract is dead text)\n", n)
			continue
		}
		for _, en := range ct.Ensures {
			var by []string
			for _, p := range props {
				cs := checks[p]
				isRoot := false
				for _, r := range cs.Roots {
					if r.Func == n && contains(r.Modes, "functional") && (len(r.Kinds) == 0 || contains(r.Kinds, "ensures")) {
						isRoot = true
					}
				}
				if !isRoot {
					continue
				}
				if len(en.Props) == 0 || contains(en.Props, p) || overlaps(en.Props, cs.Also) {
					by = append(by, p)
				}
			}
			lbl := en.Label
			if lbl == "" {
				lbl = truncate(en.Src, 50)
			}
			tag := ""
			if strings.Contains(strings.Join(en.Props, ","), "ghostdef") {
				tag = " (ghost definition)"
			}
			if ct.Trusted {
				tag += " (contract marked trusted)"
			}
			if len(by) == 0 {
				unproved++
				fmt.Printf("UNPROVED %-55s [%s]%s\n", n, lbl, tag)
			} else if len(args) > 0 && args[0] == "-v" {
				fmt.Printf("proved   %-55s [%s] by %s\n", n, lbl, strings.Join(by, ","))
			}
		}
	}
	fmt.Printf("%d postcondition clause(s) of in-repo contracts are proved by no check\n", unproved)
	return 0
}
