package main

// Contract language: lexer, parser and AST. Evaluation lives in speceval.go.

import (
	"fmt"
	"strconv"
	"strings"
	"unicode"
)

type SNode struct {
	Kind string // "ident","num","str","bin","un","sel","idx","slice","call","quant","old","nil","true","false"
	Op   string
	Name string
	Args []*SNode
	// quant
	Vars  []string
	Sorts []string
	Pos   int
	Src   string
}

func (n *SNode) String() string {
	switch n.Kind {
	case "ident", "num":
		return n.Name
	case "str":
		return fmt.Sprintf("%q", n.Name)
	case "bin":
		return "(" + n.Args[0].String() + " " + n.Op + " " + n.Args[1].String() + ")"
	case "un":
		return n.Op + n.Args[0].String()
	case "sel":
		return n.Args[0].String() + "." + n.Name
	case "idx":
		return n.Args[0].String() + "[" + n.Args[1].String() + "]"
	case "slice":
		return n.Args[0].String() + "[" + n.Args[1].String() + ":" + n.Args[2].String() + "]"
	case "call":
		var as []string
		for _, a := range n.Args {
			as = append(as, a.String())
		}
		return n.Name + "(" + strings.Join(as, ", ") + ")"
	case "quant":
		return n.Op + " " + strings.Join(n.Vars, ",") + " :: " + n.Args[0].String()
	case "old":
		return "old(" + n.Args[0].String() + ")"
	}
	return n.Kind
}

type stok struct {
	kind string // "id","num","str","op","eof"
	text string
	pos  int
}

func slex(src string) ([]stok, error) {
	var toks []stok
	i := 0
	for i < len(src) {
		c := rune(src[i])
		switch {
		case c == ' ' || c == '\t':
			i++
		case unicode.IsLetter(c) || c == '_':
			j := i
			for j < len(src) && (unicode.IsLetter(rune(src[j])) || unicode.IsDigit(rune(src[j])) || src[j] == '_' || src[j] == '$') {
				j++
			}
			toks = append(toks, stok{"id", src[i:j], i})
			i = j
		case unicode.IsDigit(c):
			j := i
			for j < len(src) && (unicode.IsDigit(rune(src[j])) || src[j] == 'x' || (src[j] >= 'a' && src[j] <= 'f') || (src[j] >= 'A' && src[j] <= 'F') || src[j] == '_') {
				j++
			}
			toks = append(toks, stok{"num", src[i:j], i})
			i = j
		case c == '"':
			j := i + 1
			var sb strings.Builder
			for j < len(src) && src[j] != '"' {
				if src[j] == '\\' && j+1 < len(src) {
					j++
					switch src[j] {
					case 'n':
						sb.WriteByte('\n')
					case 't':
						sb.WriteByte('\t')
					default:
						sb.WriteByte(src[j])
					}
				} else {
					sb.WriteByte(src[j])
				}
				j++
			}
			if j >= len(src) {
				return nil, fmt.Errorf("unterminated string at %d", i)
			}
			toks = append(toks, stok{"str", sb.String(), i})
			i = j + 1
		default:
			ops := []string{"<==>", "==>", "::", "==", "!=", "<=", ">=", "&&", "||", "<<", ">>", "&^", "..",
				"+", "-", "*", "/", "%", "<", ">", "!", "(", ")", "[", "]", ".", ",", ":", "&", "|", "^", "?"}
			found := false
			for _, op := range ops {
				if strings.HasPrefix(src[i:], op) {
					toks = append(toks, stok{"op", op, i})
					i += len(op)
					found = true
					break
				}
			}
			if !found {
				return nil, fmt.Errorf("unexpected character %q at %d in %q", c, i, src)
			}
		}
	}
	toks = append(toks, stok{"eof", "", len(src)})
	return toks, nil
}

type sparser struct {
	toks []stok
	pos  int
	src  string
}

func ParseSpecExpr(src string) (n *SNode, err error) {
	toks, err := slex(src)
	if err != nil {
		return nil, err
	}
	p := &sparser{toks: toks, src: src}
	defer func() {
		if r := recover(); r != nil {
			if e, ok := r.(specErr); ok {
				err = fmt.Errorf("%s in %q", string(e), src)
				return
			}
			panic(r)
		}
	}()
	n = p.expr()
	if p.peek().kind != "eof" {
		p.fail("unexpected %q", p.peek().text)
	}
	n.Src = src
	return n, nil
}

type specErr string

func (p *sparser) fail(format string, args ...interface{}) {
	panic(specErr(fmt.Sprintf(format, args...) + fmt.Sprintf(" at offset %d", p.peek().pos)))
}
func (p *sparser) peek() stok { return p.toks[p.pos] }
func (p *sparser) next() stok { t := p.toks[p.pos]; p.pos++; return t }
func (p *sparser) isOp(s string) bool {
	t := p.peek()
	return t.kind == "op" && t.text == s
}
func (p *sparser) accept(s string) bool {
	if p.isOp(s) {
		p.pos++
		return true
	}
	return false
}
func (p *sparser) expect(s string) {
	if !p.accept(s) {
		p.fail("expected %q, got %q", s, p.peek().text)
	}
}

func (p *sparser) expr() *SNode {
	t := p.peek()
	if t.kind == "id" && (t.text == "forall" || t.text == "exists") {
		p.next()
		q := &SNode{Kind: "quant", Op: t.text, Pos: t.pos}
		for {
			v := p.next()
			if v.kind != "id" {
				p.fail("expected bound variable")
			}
			srt := "int"
			if p.accept(":") {
				s := p.next()
				srt = s.text
			}
			q.Vars = append(q.Vars, v.text)
			q.Sorts = append(q.Sorts, srt)
			if !p.accept(",") {
				break
			}
		}
		p.expect("::")
		q.Args = []*SNode{p.expr()}
		return q
	}
	return p.iff()
}

func (p *sparser) iff() *SNode {
	l := p.impl()
	for p.isOp("<==>") {
		p.next()
		r := p.impl()
		l = &SNode{Kind: "bin", Op: "<==>", Args: []*SNode{l, r}}
	}
	return l
}

func (p *sparser) impl() *SNode {
	l := p.or()
	if p.isOp("==>") {
		p.next()
		r := p.implRhs()
		return &SNode{Kind: "bin", Op: "==>", Args: []*SNode{l, r}}
	}
	return l
}

func (p *sparser) implRhs() *SNode {
	t := p.peek()
	if t.kind == "id" && (t.text == "forall" || t.text == "exists") {
		return p.expr()
	}
	return p.impl()
}

func (p *sparser) or() *SNode {
	l := p.and()
	for p.isOp("||") {
		p.next()
		r := p.and()
		l = &SNode{Kind: "bin", Op: "||", Args: []*SNode{l, r}}
	}
	return l
}

func (p *sparser) and() *SNode {
	l := p.cmp()
	for p.isOp("&&") {
		p.next()
		r := p.cmp()
		l = &SNode{Kind: "bin", Op: "&&", Args: []*SNode{l, r}}
	}
	return l
}

func (p *sparser) cmp() *SNode {
	l := p.add()
	for _, op := range []string{"==", "!=", "<=", ">=", "<", ">"} {
		if p.isOp(op) {
			p.next()
			r := p.add()
			return &SNode{Kind: "bin", Op: op, Args: []*SNode{l, r}}
		}
	}
	return l
}

func (p *sparser) add() *SNode {
	l := p.mul()
	for p.isOp("+") || p.isOp("-") || p.isOp("|") || p.isOp("^") {
		op := p.next().text
		r := p.mul()
		l = &SNode{Kind: "bin", Op: op, Args: []*SNode{l, r}}
	}
	return l
}

func (p *sparser) mul() *SNode {
	l := p.unary()
	for p.isOp("*") || p.isOp("/") || p.isOp("%") || p.isOp("&") || p.isOp("<<") || p.isOp(">>") || p.isOp("&^") {
		op := p.next().text
		r := p.unary()
		l = &SNode{Kind: "bin", Op: op, Args: []*SNode{l, r}}
	}
	return l
}

func (p *sparser) unary() *SNode {
	if p.isOp("!") {
		p.next()
		return &SNode{Kind: "un", Op: "!", Args: []*SNode{p.unary()}}
	}
	if p.isOp("-") {
		p.next()
		return &SNode{Kind: "un", Op: "-", Args: []*SNode{p.unary()}}
	}
	return p.postfix()
}

func (p *sparser) postfix() *SNode {
	n := p.primary()
	for {
		switch {
		case p.isOp("."):
			p.next()
			id := p.next()
			if id.kind != "id" {
				p.fail("expected field name")
			}
			n = &SNode{Kind: "sel", Name: id.text, Args: []*SNode{n}}
		case p.isOp("["):
			p.next()
			var lo *SNode
			if !p.isOp(":") {
				lo = p.expr()
			}
			if p.accept(":") {
				var hi *SNode
				if !p.isOp("]") {
					hi = p.expr()
				}
				p.expect("]")
				n = &SNode{Kind: "slice", Args: []*SNode{n, lo, hi}}
			} else {
				p.expect("]")
				n = &SNode{Kind: "idx", Args: []*SNode{n, lo}}
			}
		case p.isOp("(") && (n.Kind == "ident" || n.Kind == "sel"):
			p.next()
			var args []*SNode
			for !p.isOp(")") {
				args = append(args, p.expr())
				if !p.accept(",") {
					break
				}
			}
			p.expect(")")
			name := n.Name
			if n.Kind == "sel" {
				name = n.String()
			}
			if name == "old" {
				if len(args) != 1 {
					p.fail("old takes one argument")
				}
				n = &SNode{Kind: "old", Args: args}
			} else {
				n = &SNode{Kind: "call", Name: name, Args: args}
			}
		default:
			return n
		}
	}
}

func (p *sparser) primary() *SNode {
	t := p.next()
	switch t.kind {
	case "id":
		switch t.text {
		case "nil":
			return &SNode{Kind: "nil"}
		case "true":
			return &SNode{Kind: "true"}
		case "false":
			return &SNode{Kind: "false"}
		}
		return &SNode{Kind: "ident", Name: t.text, Pos: t.pos}
	case "num":
		return &SNode{Kind: "num", Name: strings.ReplaceAll(t.text, "_", "")}
	case "str":
		return &SNode{Kind: "str", Name: t.text}
	case "op":
		if t.text == "(" {
			e := p.expr()
			p.expect(")")
			return e
		}
	}
	p.pos--
	p.fail("unexpected token %q", t.text)
	return nil
}

// ---- contract files -------------------------------------------------------

type Clause struct {
	Kind string // requires, ensures, modifies, allows, invariant, loopmodifies, decreases
	Expr *SNode
	Src  string
	// allows
	Effect string
	Handle string // bound variable name for the handle, "" if none
	// modifies
	Names []string
	Loop  int
	Label string
	Props []string
	Line  int
}

type Contract struct {
	Func     string // short function name, e.g. (*receiver.Transfer).recvToken
	Extern   bool
	Requires []*Clause
	Ensures  []*Clause
	// Preserves: clauses that are both (their copies are in Requires and Ensures)
	Preserves []*Clause
	Modifies []string
	HasMod   bool
	Allows   []*Clause
	LoopInv  map[int][]*Clause
	LoopMod  map[int][]string
	LoopExit map[int][]*Clause // "loop N: exit [label] expr": must hold on every edge leaving the loop
	Props    []string
	Inline   bool
	Trusted  bool
	Pure     bool
	NoPanic  bool
	MayExit  *Clause
	Results  []string // names for results
	Params   []string // names for params (extern only)
	File     string
	Line     int
	Returns  []*Clause // "returns fresh"/provenance (extern)
	Calls    []*Clause // extern: callback params invoked (optionally constrained)
	Uses     []string  // lemmas to instantiate
	Nullable []string
	Permutes []string // extern: slice-valued params whose elements are permuted in place
	AtCalls  []*Clause // call-site assertions inside this function
	Touches  []string  // extern: params whose per-object ghost state becomes unknown
	Fresh    bool      // extern: the first result is a newly allocated object
	NoWrap   bool      // signed 64-bit arithmetic is proved overflow-free and then treated as mathematical
	NoWrapProps []string // nowrap[C02]: only in the checks of these properties
	Unreachable []string // "return@3": return statements (source order) that are meant to be dead under the contract
}

type SpecFunc struct {
	Name   string
	Params []string
	PSorts []string
	Ret    string
	Body   *SNode // nil => uninterpreted
	Rec    bool
}

type Axiom struct {
	Name  string
	Expr  *SNode
	Src   string
	Lemma bool     // proved as its own obligation before it is assumed
	Props []string // lemma[C17]: only for these properties
	File  string
	Line  int
}

type GhostVar struct {
	Name string
	Sort string
	Init string
}

type DefaultRule struct {
	Pattern string // e.g. "(*receiver.Transfer).*" or "receiver.*"
	Clauses []*Clause
	Props   []string
}

type SpecSet struct {
	Contracts map[string]*Contract
	Funcs     map[string]*SpecFunc
	Axioms    []*Axiom
	Ghosts    map[string]*GhostVar
	Defaults  []*DefaultRule
	Files     []string
	Trusted   []string
	FieldInv  map[string]*Axiom
	StrPreds  map[string]*StrPred
}

// StrPred is a string predicate that is uninterpreted for symbolic strings
// and evaluated concretely for string literals.
type StrPred struct {
	Name string
	Kind string // contains, containsfold, containsany
	Text string
}

func (p *StrPred) Eval(s string) bool {
	switch p.Kind {
	case "contains":
		return strings.Contains(s, p.Text)
	case "containsfold":
		return strings.Contains(strings.ToLower(s), strings.ToLower(p.Text))
	case "containsany":
		return strings.ContainsAny(s, p.Text)
	case "hassuffix":
		return strings.HasSuffix(s, p.Text)
	case "hasprefix":
		return strings.HasPrefix(s, p.Text)
	}
	return false
}

func NewSpecSet() *SpecSet {
	return &SpecSet{Contracts: map[string]*Contract{}, Funcs: map[string]*SpecFunc{}, Ghosts: map[string]*GhostVar{}, FieldInv: map[string]*Axiom{}, StrPreds: map[string]*StrPred{}}
}

// ParseSpecText parses the "//@"-stripped lines of a contract file.
func (ss *SpecSet) ParseSpecText(file string, lines []string, lineNos []int) error {
	var cur *Contract
	var curDef *DefaultRule
	// join continuation lines (ending with '\')
	for i := 0; i < len(lines); i++ {
		line := strings.TrimSpace(lines[i])
		ln := lineNos[i]
		for strings.HasSuffix(line, "\\") && i+1 < len(lines) {
			i++
			line = strings.TrimSuffix(line, "\\") + " " + strings.TrimSpace(lines[i])
		}
		if line == "" || strings.HasPrefix(line, "#") {
			continue
		}
		word, rest := splitWord(line)
		tag := ""
		if i := strings.Index(word, "["); i > 0 && strings.HasSuffix(word, "]") {
			tag = word[i+1 : len(word)-1]
			word = word[:i]
		}
		fail := func(err error) error { return fmt.Errorf("%s:%d: %v", file, ln, err) }
		switch word {
		case "func", "extern":
			name := strings.TrimSpace(rest)
			var params []string
			if idx := strings.Index(name, " params "); idx >= 0 {
				params = strings.Fields(strings.ReplaceAll(name[idx+8:], ",", " "))
				name = strings.TrimSpace(name[:idx])
			}
			cur = &Contract{Func: name, Extern: word == "extern", LoopInv: map[int][]*Clause{}, LoopMod: map[int][]string{}, File: file, Line: ln, Params: params}
			curDef = nil
			if old, ok := ss.Contracts[name]; ok {
				// several blocks for one function are merged
				cur = old
			} else {
				ss.Contracts[name] = cur
			}
		case "default":
			curDef = &DefaultRule{Pattern: strings.TrimSpace(rest)}
			cur = nil
			ss.Defaults = append(ss.Defaults, curDef)
		case "spec":
			w2, r2 := splitWord(rest)
			rec := false
			if w2 == "rec" {
				rec = true
				w2, r2 = splitWord(r2)
			}
			if w2 != "func" {
				return fail(fmt.Errorf("expected 'spec func' or 'spec rec func'"))
			}
			sf, err := parseSpecFunc(r2)
			if err != nil {
				return fail(err)
			}
			sf.Rec = rec
			ss.Funcs[sf.Name] = sf
			cur, curDef = nil, nil
		case "axiom", "lemma":
			idx := strings.Index(rest, ":")
			if idx < 0 {
				return fail(fmt.Errorf("%s needs 'name: expr'", word))
			}
			e, err := ParseSpecExpr(strings.TrimSpace(rest[idx+1:]))
			if err != nil {
				return fail(err)
			}
			ax := &Axiom{Name: strings.TrimSpace(rest[:idx]), Expr: e, Src: rest[idx+1:], Lemma: word == "lemma", File: file, Line: ln}
			if tag != "" {
				ax.Props = strings.Split(tag, ",")
			}
			ss.Axioms = append(ss.Axioms, ax)
			cur, curDef = nil, nil
		case "strpred":
			// strpred name containsfold "text" | contains "text" | containsany "chars"
			f := strings.Fields(rest)
			if len(f) < 3 {
				return fail(fmt.Errorf("strpred needs: name kind \"text\""))
			}
			txt := strings.TrimSpace(rest[strings.Index(rest, f[1])+len(f[1]):])
			txt = strings.Trim(txt, "\"")
			ss.StrPreds[f[0]] = &StrPred{Name: f[0], Kind: f[1], Text: txt}
			cur, curDef = nil, nil
		case "fieldinv":
			idx := strings.Index(rest, ":")
			if idx < 0 {
				return fail(fmt.Errorf("fieldinv needs 'pkg.Type.field: expr over v'"))
			}
			e, err := ParseSpecExpr(strings.TrimSpace(rest[idx+1:]))
			if err != nil {
				return fail(err)
			}
			ss.FieldInv[strings.TrimSpace(rest[:idx])] = &Axiom{Name: strings.TrimSpace(rest[:idx]), Expr: e, Src: strings.TrimSpace(rest[idx+1:])}
			cur, curDef = nil, nil
		case "ghost":
			parts := strings.SplitN(rest, ":", 2)
			if len(parts) != 2 {
				return fail(fmt.Errorf("ghost needs 'name: sort'"))
			}
			gv := &GhostVar{Name: strings.TrimSpace(parts[0]), Sort: strings.TrimSpace(parts[1])}
			// "ghost x: Sort owned": only contracts that list x under modifies change it; calls
			// without a contract are assumed not to reach the objects it describes
			if f := strings.Fields(gv.Sort); len(f) == 2 && f[1] == "owned" {
				gv.Sort, gv.Init = f[0], "owned"
			}
			ss.Ghosts[gv.Name] = gv
			cur, curDef = nil, nil
		default:
			if cur == nil && curDef == nil {
				return fail(fmt.Errorf("clause %q outside of a func/extern/default block", word))
			}
			cl, err := parseClause(word, rest)
			if err != nil {
				return fail(err)
			}
			cl.Line = ln
			if tag != "" {
				cl.Props = strings.Split(tag, ",")
			}
			if curDef != nil {
				if cl.Kind == "props" {
					curDef.Props = cl.Names
				} else {
					curDef.Clauses = append(curDef.Clauses, cl)
				}
				continue
			}
			addClause(cur, cl)
		}
	}
	ss.Files = append(ss.Files, file)
	return nil
}

func addClause(c *Contract, cl *Clause) {
	switch cl.Kind {
	case "requires":
		c.Requires = append(c.Requires, cl)
	case "ensures":
		c.Ensures = append(c.Ensures, cl)
	case "preserves":
		// preserves P = requires P + ensures P; in addition code that calls the function
		// any number of times as a callback keeps P (see runCallbackWith)
		rq, en := *cl, *cl
		rq.Kind, en.Kind = "requires", "ensures"
		c.Requires = append(c.Requires, &rq)
		c.Ensures = append(c.Ensures, &en)
		c.Preserves = append(c.Preserves, cl)
	case "modifies":
		c.HasMod = true
		c.Modifies = append(c.Modifies, cl.Names...)
	case "allows":
		c.Allows = append(c.Allows, cl)
	case "invariant":
		c.LoopInv[cl.Loop] = append(c.LoopInv[cl.Loop], cl)
	case "loopmodifies":
		c.LoopMod[cl.Loop] = append(c.LoopMod[cl.Loop], cl.Names...)
	case "loopexit":
		if c.LoopExit == nil {
			c.LoopExit = map[int][]*Clause{}
		}
		c.LoopExit[cl.Loop] = append(c.LoopExit[cl.Loop], cl)
	case "props":
		c.Props = cl.Names
	case "inline":
		c.Inline = true
	case "trusted":
		c.Trusted = true
	case "pure":
		c.Pure = true
		c.HasMod = true
	case "results":
		c.Results = cl.Names
	case "calls":
		c.Calls = append(c.Calls, cl)
	case "use":
		c.Uses = append(c.Uses, cl.Names...)
	case "mayexit":
		c.MayExit = cl
	case "nullable":
		c.Nullable = append(c.Nullable, cl.Names...)
	case "permutes":
		c.Permutes = append(c.Permutes, cl.Names...)
		c.HasMod = true
	case "at":
		c.AtCalls = append(c.AtCalls, cl)
	case "touches":
		c.Touches = append(c.Touches, cl.Names...)
	case "fresh":
		c.Fresh = true
	case "nowrap":
		c.NoWrap = true
		c.NoWrapProps = cl.Props
	case "unreachable":
		c.Unreachable = append(c.Unreachable, cl.Names...)
	}
}

func splitWord(s string) (string, string) {
	s = strings.TrimSpace(s)
	i := strings.IndexAny(s, " \t")
	if i < 0 {
		return s, ""
	}
	return s[:i], strings.TrimSpace(s[i+1:])
}

func parseClause(word, rest string) (*Clause, error) {
	cl := &Clause{Src: rest}
	// optional label: "ensures [name] expr"
	label := func() {
		if strings.HasPrefix(rest, "[") {
			if j := strings.Index(rest, "]"); j > 0 {
				cl.Label = rest[1:j]
				rest = strings.TrimSpace(rest[j+1:])
				cl.Src = rest
			}
		}
	}
	switch word {
	case "requires", "ensures", "preserves":
		cl.Kind = word
		label()
		e, err := ParseSpecExpr(rest)
		if err != nil {
			return nil, err
		}
		cl.Expr = e
	case "modifies":
		cl.Kind = "modifies"
		for _, n := range strings.Split(rest, ",") {
			if n = strings.TrimSpace(n); n != "" {
				cl.Names = append(cl.Names, n)
			}
		}
	case "calls":
		cl.Kind = "calls"
		name := rest
		if idx := strings.Index(rest, " with "); idx >= 0 {
			name = strings.TrimSpace(rest[:idx])
			e, err := ParseSpecExpr(strings.TrimSpace(rest[idx+6:]))
			if err != nil {
				return nil, err
			}
			cl.Expr = e
		}
		// "f as pred": the callback's result as a function of its arguments
		// becomes available to the ensures clauses under the name pred
		// "f once": the callback runs exactly once (go statements, errgroup.Go): its effect is
		// that of one call at this point (scheduling is not modelled)
		if strings.HasSuffix(strings.TrimSpace(name), " once") {
			name = strings.TrimSuffix(strings.TrimSpace(name), " once")
			cl.Label = "once"
		}
		if idx := strings.Index(name, " as "); idx >= 0 {
			cl.Handle = strings.TrimSpace(name[idx+4:])
			name = strings.TrimSpace(name[:idx])
		}
		cl.Names = []string{name}
	case "props", "results", "use", "nullable", "permutes", "touches", "unreachable":
		cl.Kind = word
		cl.Names = strings.Fields(strings.ReplaceAll(rest, ",", " "))
	case "at":
		// at <callee name>: assert [label] <expr>   -- checked in the caller at each call of callee
		//    at <callee name>: set ghost.g = <expr>      -- ghost assignment just before the call (a
		//    label for a value that later clauses of the same function refer to)
		idx := strings.Index(rest, ": assert")
		kw := ": assert"
		if j := strings.Index(rest, ": set ghost."); idx < 0 && j >= 0 {
			idx, kw = j, ": set"
		}
		if idx < 0 {
			return nil, fmt.Errorf("at clause needs '<callee>: assert <expr>' or '<callee>: set ghost.g = <expr>'")
		}
		cl.Kind = "at"
		callee := strings.TrimSpace(rest[:idx])
		// optional site ordinal: "callee@2" = the second call of callee in execution order
		if k := strings.LastIndex(callee, "@"); k > 0 {
			if n, err := strconv.Atoi(callee[k+1:]); err == nil {
				cl.Loop = n
				callee = callee[:k]
			}
		}
		cl.Names = []string{callee}
		rest = strings.TrimSpace(rest[idx+len(kw):])
		cl.Src = rest
		if kw == ": set" {
			eq := strings.Index(rest, "=")
			if eq < 0 {
				return nil, fmt.Errorf("at ...: set needs 'ghost.g = <expr>'")
			}
			cl.Handle = strings.TrimPrefix(strings.TrimSpace(rest[:eq]), "ghost.")
			rest = strings.TrimSpace(rest[eq+1:])
		}
		label()
		e, err := ParseSpecExpr(rest)
		if err != nil {
			return nil, err
		}
		cl.Expr = e
	case "inline", "trusted", "pure", "fresh", "nowrap":
		cl.Kind = word
	case "mayexit":
		cl.Kind = "mayexit"
		w, r := splitWord(rest)
		if w == "if" {
			e, err := ParseSpecExpr(r)
			if err != nil {
				return nil, err
			}
			cl.Expr = e
		}
	case "allows", "effect":
		// allows fswrite(h) if cond   |  allows log   |  effect fswrite(r)
		cl.Kind = "allows"
		cond := ""
		head := rest
		if idx := strings.Index(rest, " if "); idx >= 0 {
			head = strings.TrimSpace(rest[:idx])
			cond = strings.TrimSpace(rest[idx+4:])
		}
		if i := strings.Index(head, "("); i >= 0 {
			cl.Effect = strings.TrimSpace(head[:i])
			cl.Handle = strings.TrimSuffix(strings.TrimSpace(head[i+1:]), ")")
		} else {
			cl.Effect = head
		}
		if cond != "" {
			e, err := ParseSpecExpr(cond)
			if err != nil {
				return nil, err
			}
			cl.Expr = e
		}
	case "loop":
		// loop N: invariant expr | loop N: modifies a, b
		idx := strings.Index(rest, ":")
		if idx < 0 {
			return nil, fmt.Errorf("loop clause needs 'loop N: ...'")
		}
		fmt.Sscanf(strings.TrimSpace(rest[:idx]), "%d", &cl.Loop)
		w, r := splitWord(rest[idx+1:])
		switch w {
		case "invariant":
			cl.Kind = "invariant"
			rest = r
			cl.Src = r
			label()
			e, err := ParseSpecExpr(rest)
			if err != nil {
				return nil, err
			}
			cl.Expr = e
		case "modifies":
			cl.Kind = "loopmodifies"
			for _, n := range strings.Split(r, ",") {
				if n = strings.TrimSpace(n); n != "" {
					cl.Names = append(cl.Names, n)
				}
			}
		case "exit":
			cl.Kind = "loopexit"
			rest = r
			cl.Src = r
			label()
			e, err := ParseSpecExpr(rest)
			if err != nil {
				return nil, err
			}
			cl.Expr = e
		case "decreases":
			cl.Kind = "decreases"
			e, err := ParseSpecExpr(r)
			if err != nil {
				return nil, err
			}
			cl.Expr = e
		default:
			return nil, fmt.Errorf("unknown loop clause %q", w)
		}
	default:
		return nil, fmt.Errorf("unknown clause %q", word)
	}
	return cl, nil
}

// parseSpecFunc parses  name(a: int, b: Str): int = expr   or without "= expr".
func parseSpecFunc(s string) (*SpecFunc, error) {
	i := strings.Index(s, "(")
	j := matchParen(s, i)
	if i < 0 || j < 0 {
		return nil, fmt.Errorf("bad spec func header %q", s)
	}
	sf := &SpecFunc{Name: strings.TrimSpace(s[:i])}
	for _, p := range strings.Split(s[i+1:j], ",") {
		p = strings.TrimSpace(p)
		if p == "" {
			continue
		}
		parts := strings.SplitN(p, ":", 2)
		srt := "int"
		if len(parts) == 2 {
			srt = strings.TrimSpace(parts[1])
		}
		sf.Params = append(sf.Params, strings.TrimSpace(parts[0]))
		sf.PSorts = append(sf.PSorts, srt)
	}
	rest := strings.TrimSpace(s[j+1:])
	sf.Ret = "int"
	if strings.HasPrefix(rest, ":") {
		rest = strings.TrimSpace(rest[1:])
		k := strings.Index(rest, "=")
		if k < 0 {
			sf.Ret = strings.TrimSpace(rest)
			return sf, nil
		}
		sf.Ret = strings.TrimSpace(rest[:k])
		rest = rest[k:]
	}
	if strings.HasPrefix(rest, "=") {
		e, err := ParseSpecExpr(strings.TrimSpace(rest[1:]))
		if err != nil {
			return nil, err
		}
		sf.Body = e
	}
	return sf, nil
}

func matchParen(s string, i int) int {
	if i < 0 {
		return -1
	}
	d := 0
	for k := i; k < len(s); k++ {
		switch s[k] {
		case '(':
			d++
		case ')':
			d--
			if d == 0 {
				return k
			}
		}
	}
	return -1
}
