package main

import (
	"strconv"
	"encoding/json"
	"flag"
	"fmt"
	"os"
	"path/filepath"
	"regexp"
	"sort"
	"strings"
	"time"
)

var ordinalRe = regexp.MustCompile(`(@\d+)?(/\d+)?$`)

func baseName(n string) string { return ordinalRe.ReplaceAllString(n, "") }

type failure struct {
	run *FuncRun
	res *OblResult
}

func cmdCheck(args []string) int {
	if len(args) < 1 {
		fmt.Fprintln(os.Stderr, "usage: govc check <ID> [--tier quick|thorough]")
		return 2
	}
	id := args[0]
	fs := flag.NewFlagSet("check", flag.ExitOnError)
	tier := fs.String("tier", "quick", "quick or thorough")
	record := fs.Bool("record", false, "rewrite expected_discharged.json for this property (pinned tree only)")
	verbose := fs.Bool("v", false, "verbose")
	fs.Parse(args[1:])
	if t := os.Getenv("VERIF_TIER"); t != "" && *tier == "quick" {
		*tier = t
	}
	seed := 0
	fmt.Sscanf(os.Getenv("VERIF_SEED"), "%d", &seed)
	start := time.Now()

	checks, err := loadChecks()
	if err != nil {
		fmt.Fprintln(os.Stderr, "checks.json:", err)
		return 2
	}
	cs, ok := checks[id]
	if !ok {
		fmt.Fprintln(os.Stderr, "no check configured for", id)
		return 2
	}
	known, err := loadKnown()
	if err != nil {
		fmt.Fprintln(os.Stderr, "known_findings.json:", err)
		return 2
	}
	expected, err := loadExpected()
	if err != nil {
		fmt.Fprintln(os.Stderr, "expected_discharged.json:", err)
		return 2
	}
	w, err := loadWorldWithSpecs()
	if err != nil {
		fmt.Fprintln(os.Stderr, "load:", err)
		return 2
	}
	timeout := 10 * time.Second
	if *tier == "thorough" {
		timeout = 60 * time.Second
	}
	// GOVC_TIMEOUT=<seconds>: per-obligation solver budget (the mutation lanes run several checks
	// side by side without retries and need a larger budget than an otherwise idle machine)
	if v, err := strconv.Atoi(os.Getenv("GOVC_TIMEOUT")); err == nil && v > 0 {
		timeout = time.Duration(v) * time.Second
	}

	var runs []*FuncRun
	toolErrors := 0
	for _, rs := range cs.Roots {
		fn := w.Func(rs.Func)
		if fn == nil {
			fmt.Fprintf(os.Stderr, "contract target missing: %s\n", rs.Func)
			toolErrors++
			continue
		}
		t0 := time.Now()
		fr := &FuncRun{Func: rs.Func, Mode: strings.Join(rs.Modes, ","), Instrs: countInstrs(fn), File: w.pos(fn.Pos())}
		mode := modeFromNames(rs.Modes)
		x, err := w.VerifyFunc(fn, mode, id)
		fr.X = x
		if err != nil {
			fr.Err = err.Error()
			fmt.Fprintf(os.Stderr, "tool error: %v\n", err)
			toolErrors++
			runs = append(runs, fr)
			continue
		}
		if len(cs.Effects) > 0 {
			// drop effect obligations for effects this property does not track
			keep := x.obligs[:0]
			for _, o := range x.obligs {
				if o.Kind == "effect" && !contains(cs.Effects, o.Extra["effect"]) {
					continue
				}
				keep = append(keep, o)
			}
			x.obligs = keep
		}
		if len(rs.Kinds) > 0 {
			keep := x.obligs[:0]
			for _, o := range x.obligs {
				if contains(rs.Kinds, o.Kind) {
					keep = append(keep, o)
				}
			}
			x.obligs = keep
		}
		x.crossCheck = *tier == "thorough"
		x.noRetry = map[string]bool{}
		for i := range known {
			if known[i].Property == id && known[i].Status == "open" {
				x.noRetry[known[i].Obligation] = true
			}
		}
		fr.Results = x.discharge(timeout, 16)
		fr.Seconds = time.Since(t0).Seconds()
		runs = append(runs, fr)
	}

	// classify
	exp := map[string]bool{}
	for _, n := range expected[id] {
		exp[n] = true
	}
	knownOpen := map[string]*KnownFinding{}
	for i := range known {
		k := &known[i]
		if k.Property == id && k.Status == "open" {
			knownOpen[k.Obligation] = k
		}
	}
	total, discharged := 0, 0
	var fails []failure
	var dischargedNames []string
	solverTime := 0.0
	bySolver := map[string]int{}
	var samples []map[string]interface{}
	knownHits := map[string]int{}
	for _, fr := range runs {
		for _, r := range fr.Results {
			solverTime += r.Seconds
			if r.Status == "discharged" || r.Status == "trivial" {
				total++
				discharged++
				bySolver[r.Solver]++
				dischargedNames = append(dischargedNames, baseName(r.Obl.Name))
				if len(samples) < 6 && r.Status == "discharged" && (len(samples) < 3 || r.Obl.Kind == "ensures" || r.Obl.Kind == "effect") {
					samples = append(samples, map[string]interface{}{"obligation": r.Obl.Name, "kind": r.Obl.Kind, "at": r.Obl.Pos,
						"result": "unsat", "solver": r.Solver, "seconds": round3(r.Seconds), "smt_bytes": r.Size})
				}
				continue
			}
			if k, ok := knownOpen[baseName(r.Obl.Name)]; ok {
				knownHits[k.Obligation]++
				continue
			}
			total++
			fails = append(fails, failure{fr, r})
		}
	}

	exit := 0
	violations := 0
	undecided := 0
	os.MkdirAll(filepath.Join(verifDir(), "replays", id), 0o755)
	var ks []string
	for k := range knownHits {
		ks = append(ks, k)
	}
	sort.Strings(ks)
	for _, k := range ks {
		fmt.Printf("KNOWN-FINDING: property=%s %s — %s\n", id, k, knownOpen[k].What)
	}
	// a known finding that no longer fails is reported (informational)
	for k := range knownOpen {
		if knownHits[k] == 0 {
			fmt.Fprintf(os.Stderr, "note: known finding %s did not fail on this tree\n", k)
		}
	}
	for _, f := range fails {
		name := f.res.Obl.Name
		path := filepath.Join(verifDir(), "replays", id, sanitize(name)+".txt")
		replayOK, replayText := tryReplay(w, f, id)
		var sb strings.Builder
		fmt.Fprintf(&sb, "property: %s\nobligation: %s\nkind: %s\nfunction under contract: %s\nsource: %s\nstatus: %s (solver %s, %.2fs)\n", id, name, f.res.Obl.Kind, f.run.Func, f.res.Obl.Pos, f.res.Status, f.res.Solver, f.res.Seconds)
		for k, v := range f.res.Obl.Extra {
			fmt.Fprintf(&sb, "%s: %s\n", k, v)
		}
		fmt.Fprintf(&sb, "\nmodel (inputs):\n%s\n", modelSummary(f.res.Model, 60))
		fmt.Fprintf(&sb, "\nreplay:\n%s\n", replayText)
		fmt.Fprintf(&sb, "\nsolver output:\n%s\n", truncateStr(f.res.Raw, 6000))
		os.WriteFile(path, []byte(sb.String()), 0o644)
		wasDischarged := exp[baseName(name)]
		staleFn := f.run.X != nil && len(f.run.X.stale) > 0
		autoKind := map[string]bool{"index": true, "slice": true, "makeslice": true, "panic": true, "exit": true,
			"typeassert": true, "divzero": true, "nilmap": true, "effect": true, "frame": true, "overflow": true}[f.res.Obl.Kind]
		switch {
		case f.res.Status == "failed" && replayOK:
			fmt.Printf("VIOLATION property=%s replay=%s\n", id, path)
			violations++
			exit = 1
		case wasDischarged:
			// passed on the unchanged tree, fails now
			if staleFn {
				sb.WriteString("\nnote: a contract clause of " + f.run.Func + " no longer fits the code and was skipped:\n")
				for _, sm := range f.run.X.stale {
					sb.WriteString("  " + sm + "\n")
				}
				os.WriteFile(path, []byte(sb.String()), 0o644)
			}
			fmt.Printf("VIOLATION property=%s replay=%s no-failing-input-found\n", id, path)
			violations++
			exit = 1
		case staleFn:
			// a contract clause of this function no longer fits the code (renamed or removed
			// local, restructured loop) and this obligation was not among those proved on the
			// unchanged tree: it cannot be judged
			fmt.Fprintf(os.Stderr, "undecided: %s (%s; contracts of %s are stale) — see %s\n", name, f.res.Status, f.run.Func, path)
			undecided++
		case f.res.Status == "failed" && autoKind:
			// zero-annotation safety/effect obligation with a solver model
			fmt.Printf("VIOLATION property=%s replay=%s no-failing-input-found\n", id, path)
			violations++
			exit = 1
		default:
			fmt.Fprintf(os.Stderr, "undecided: %s (%s) — see %s\n", name, f.res.Status, path)
			undecided++
		}
		if *verbose {
			fmt.Fprintf(os.Stderr, "  %s %s at %s model: %s\n", f.res.Status, name, f.res.Obl.Pos, modelSummary(f.res.Model, 12))
		}
	}
	// Contract clauses that no longer fit the code (a renamed or removed local, a call that
	// moved): they were skipped. On their own they are not a verdict about the property: what
	// could still be generated was proved (or is reported above). They are listed, loudly, as
	// unchecked, here and in the evidence.
	var staleClauses []string
	for _, fr := range runs {
		if fr.X != nil {
			for _, sm := range fr.X.stale {
				fmt.Fprintf(os.Stderr, "stale contract clause: %s\n", sm)
				fmt.Printf("UNCHECKED: property=%s contract clause does not fit the code any more and was skipped: %s\n", id, truncateStr(sm, 300))
				staleClauses = append(staleClauses, sm)
			}
		}
	}
	if toolErrors > 0 || (undecided > 0 && exit == 0) {
		exit = 2
	}
	if total == 0 && exit == 0 {
		fmt.Fprintln(os.Stderr, "vacuity: no obligations generated")
		exit = 2
	}

	// bounded stand-ins (thorough tier, or always when cheap)
	var boundedOut []map[string]interface{}
	for _, b := range cs.Bounded {
		res := runBounded(b)
		boundedOut = append(boundedOut, res)
		if res["ok"] != true {
			p := filepath.Join(verifDir(), "replays", id, sanitize("bounded_"+b.Name)+".txt")
			os.WriteFile(p, []byte(fmt.Sprint(res["output"])), 0o644)
			fmt.Printf("VIOLATION property=%s replay=%s\n", id, p)
			violations++
			exit = 1
		}
	}

	// obligations that were discharged on the pinned tree but no longer exist
	var missing []string
	{
		have := map[string]bool{}
		for _, fr := range runs {
			for _, r := range fr.Results {
				have[baseName(r.Obl.Name)] = true
			}
		}
		for n := range exp {
			if !have[n] {
				missing = append(missing, n)
			}
		}
		sort.Strings(missing)
		if len(missing) > 0 && !*record {
			fmt.Fprintf(os.Stderr, "note: %d obligation(s) recorded for the pinned tree were not generated on this tree (code or contracts changed): %s\n", len(missing), strings.Join(missing[:min(len(missing), 5)], "; "))
		}
	}
	if *record && exit == 0 {
		sort.Strings(dischargedNames)
		expected[id] = uniq(dischargedNames)
		data, _ := json.MarshalIndent(expected, "", " ")
		os.WriteFile(filepath.Join(verifDir(), "contracts", "expected_discharged.json"), data, 0o644)
	}

	// slowest obligations (margin against the per-obligation time limit)
	var slow []map[string]interface{}
	{
		var all []*OblResult
		for _, fr := range runs {
			all = append(all, fr.Results...)
		}
		sort.Slice(all, func(i, j int) bool { return all[i].Seconds > all[j].Seconds })
		for i, r := range all {
			if i >= 5 || r.Seconds < 1.0 {
				break
			}
			slow = append(slow, map[string]interface{}{"obligation": r.Obl.Name, "seconds": round3(r.Seconds), "solver": r.Solver, "status": r.Status})
			if *verbose || r.Seconds > timeout.Seconds()/2 {
				fmt.Fprintf(os.Stderr, "slow: %s %.1fs (%s, %s)\n", r.Obl.Name, r.Seconds, r.Solver, r.Status)
			}
		}
	}
	// evidence
	var funcs []map[string]interface{}
	var assumptions []string
	usedExt := map[string]bool{}
	unknownCalls := map[string]int{}
	warnings := map[string]bool{}
	for _, fr := range runs {
		nd, nt := 0, 0
		for _, r := range fr.Results {
			nt++
			if r.Status == "discharged" || r.Status == "trivial" {
				nd++
			}
		}
		funcs = append(funcs, map[string]interface{}{"func": fr.Func, "at": fr.File, "modes": fr.Mode, "ssa_instructions": fr.Instrs,
			"obligations": nt, "discharged": nd, "seconds": round3(fr.Seconds), "error": fr.Err})
		if fr.X != nil {
			for n, ct := range fr.X.usedContracts {
				if ct.Extern || ct.Trusted {
					usedExt[n] = true
				}
			}
			for n, c := range fr.X.unknownCalls {
				unknownCalls[n] += c
			}
			for _, wn := range fr.X.warnings {
				warnings[wn] = true
			}
		}
	}
	// thorough tier: second-solver verdicts
	crossStats := map[string]int{}
	for _, fr := range runs {
		for _, r := range fr.Results {
			if r.Cross != "" {
				k := r.Cross
				if strings.HasPrefix(k, "confirmed by ") {
					k = "confirmed"
				} else if strings.HasPrefix(k, "DISAGREES") {
					k = "disagreement"
				} else {
					k = "second solver undecided"
				}
				crossStats[k]++
			}
		}
	}
	// in-repo contracts assumed at call sites in this run, and the checks that prove them
	var assumedRepo []map[string]interface{}
	{
		seen := map[string]bool{}
		var names []string
		for _, fr := range runs {
			if fr.X == nil {
				continue
			}
			for n, ct := range fr.X.usedContracts {
				if !ct.Extern && !seen[n] {
					seen[n] = true
					names = append(names, n)
				}
			}
		}
		sort.Strings(names)
		for _, n := range names {
			ct := w.Specs.Contracts[n]
			var provers []string
			for p, c2 := range checks {
				for _, r := range c2.Roots {
					if r.Func == n && contains(r.Modes, "functional") {
						provers = append(provers, p)
					}
				}
			}
			sort.Strings(provers)
			e := map[string]interface{}{"func": n, "ensures_clauses": len(ct.Ensures), "proved_as_root_in": provers}
			if ct.Trusted {
				e["marked_trusted"] = true
			}
			assumedRepo = append(assumedRepo, e)
		}
	}
	trusted := append([]string{}, cs.Trusted...)
	var ext []string
	for n := range usedExt {
		ext = append(ext, n)
	}
	sort.Strings(ext)
	if len(ext) > 0 {
		trusted = append(trusted, "assumed contracts of external/trusted functions used in this run: "+strings.Join(ext, ", "))
	}
	var uc []string
	for n := range unknownCalls {
		uc = append(uc, n)
	}
	sort.Strings(uc)
	if len(uc) > 0 {
		trusted = append(trusted, "calls without contract, abstracted as 'result arbitrary, writes only through arguments' (effect class by package table): "+strings.Join(uc, ", "))
	}
	trusted = append(trusted,
		"govc itself (SSA->SMT translation, memory model), go/ssa and go/types of x/tools v0.29.0, the SMT solvers",
		"integers: every Go integer is an SMT Int with exact wrap-around at each operation; slice/string lengths are assumed <= 2^47 (amd64 address space)",
		"goroutine scheduling is not modelled: go/eg.Go bodies are analysed as calls at the spawn point")
	for wn := range warnings {
		assumptions = append(assumptions, "imprecision: "+wn)
	}
	sort.Strings(assumptions)
	for _, sm := range staleClauses {
		assumptions = append(assumptions, "UNCHECKED (stale contract clause, skipped): "+truncateStr(sm, 300))
	}
	assumptions = append(assumptions, trusted...)
	var kf []string
	for _, k := range ks {
		kf = append(kf, k+": "+knownOpen[k].What)
	}
	cov := map[string]interface{}{
		"obligations":       total,
		"discharged":        discharged,
		"checker_cmd":       fmt.Sprintf("/verif/bin/govc check %s --tier %s  (z3-new 5.1.0 | z3 4.8.12 | cvc5 1.0.3 portfolio, %s per obligation)", id, *tier, timeout),
		"trusted_base":      trusted,
		"functions":         funcs,
		"by_backend":        bySolver,
		"solver_seconds":    round3(solverTime),
		"samples":           samples,
		"known_findings":    kf,
		"undecided":         undecided,
		"stale_clauses_skipped": staleClauses,
		"tool_errors":       toolErrors,
		"bounded":           boundedOut,
		"explanation":       "obligations = verification conditions generated from /repo's current source for the functions listed under 'functions' (excluding those matched by an open entry of known_findings.json, listed separately); discharged = proved unsat-negation by an SMT solver or reduced to true by the term simplifier; bounded stand-ins are listed under 'bounded' and are not counted",
		"contract_files":    w.Specs.Files,
		"mirror_fallback":   w.UsedMirror,
		"missing_expected":  missing,
		"slowest":           slow,
		"second_solver":     crossStats,
		"in_repo_contracts_assumed_at_call_sites": assumedRepo,
	}
	if len(samples) == 0 {
		cov["samples"] = []map[string]interface{}{{"note": "no solver-discharged obligation in this run"}}
	}
	ev := Evidence{PropertyID: id, Tier: *tier, Seed: seed, Level: "proof", Coverage: cov, Assumptions: assumptions,
		WallS: round3(time.Since(start).Seconds()), Violations: violations}
	data, _ := json.MarshalIndent(ev, "", " ")
	evDir := filepath.Join(verifDir(), "evidence")
	if d := os.Getenv("VERIF_EVIDENCE_DIR"); d != "" {
		evDir = d // mutation runs (selftest, seeded changes) must not overwrite the committed evidence
	}
	os.MkdirAll(evDir, 0o755)
	if err := os.WriteFile(filepath.Join(evDir, id+".json"), data, 0o644); err != nil {
		fmt.Fprintln(os.Stderr, err)
		return 2
	}
	fmt.Printf("%s: %d/%d obligations discharged over %d functions, %d known finding(s), %d violation(s), %d undecided, %.1fs\n",
		id, discharged, total, len(runs), len(ks), violations, undecided, time.Since(start).Seconds())
	return exit
}

func contains(l []string, s string) bool {
	for _, x := range l {
		if x == s {
			return true
		}
	}
	return false
}

func uniq(l []string) []string {
	var out []string
	for i, s := range l {
		if i == 0 || s != l[i-1] {
			out = append(out, s)
		}
	}
	return out
}

func round3(f float64) float64 { return float64(int(f*1000+0.5)) / 1000 }

func truncateStr(s string, n int) string {
	if len(s) > n {
		return s[:n] + "\n...[truncated]"
	}
	return s
}
