package main

import (
	"regexp"
	"os"
	"fmt"
	"go/token"
	"go/types"
	"sort"
	"strings"

	"golang.org/x/tools/go/ssa"
)

const maxInlineDepth = 10

func (fr *Frame) evalCallOperands(c *ssa.CallCommon) (Value, []Value) {
	var fnv Value
	var args []Value
	if c.IsInvoke() {
		fnv = fr.val(c.Value)
	} else {
		switch c.Value.(type) {
		case *ssa.Builtin:
		default:
			fnv = fr.val(c.Value)
		}
	}
	for _, a := range c.Args {
		args = append(args, fr.val(a))
	}
	return fnv, args
}

func (fr *Frame) call(instr ssa.Instruction, c *ssa.CallCommon, res ssa.Value, pc *Term, st *State, pos string, isGo bool) *Term {
	fnv, args := fr.evalCallOperands(c)
	return fr.doCall(instr, c, fnv, args, res, pc, st, pos, isGo)
}

func externName(fn *ssa.Function) string { return fn.String() }

// resolveCallee finds the function actually called, if statically known.
func (fr *Frame) resolveCallee(c *ssa.CallCommon, fnv Value) (*ssa.Function, []Value) {
	x := fr.x
	if c.IsInvoke() {
		tag := fnv.L[0]
		if tag.IsLit() {
			if ct := x.typeFromID(tag.Val.Int64()); ct != nil {
				if m := x.W.Prog.LookupMethod(ct, c.Method.Pkg(), c.Method.Name()); m != nil {
					return m, nil
				}
			}
		}
		return nil, nil
	}
	if f := c.StaticCallee(); f != nil {
		if _, isClosure := c.Value.(*ssa.MakeClosure); isClosure {
			if fv, ok := x.funcTab[fnv.L[0]]; ok {
				return fv.Fn, fv.Bind
			}
		}
		return f, nil
	}
	if len(fnv.L) == 1 {
		if fv, ok := x.funcTab[fnv.L[0]]; ok {
			return fv.Fn, fv.Bind
		}
	}
	return nil, nil
}

func (x *X) typeFromID(id int64) types.Type {
	for k, v := range x.typeIDs {
		if int64(v) == id {
			return x.typeByKey[k]
		}
	}
	return nil
}

func (fr *Frame) setResult(res ssa.Value, vals []Value) {
	if res == nil {
		return
	}
	t := res.Type()
	if tup, ok := t.(*types.Tuple); ok {
		var ls []*Term
		for _, v := range vals {
			ls = append(ls, v.L...)
		}
		_ = tup
		fr.vals[res] = Value{T: t, L: ls}
		return
	}
	if len(vals) == 1 {
		fr.vals[res] = Value{T: t, L: vals[0].L}
		return
	}
	fr.vals[res] = Value{T: t, L: nil}
}

func (fr *Frame) doCall(instr ssa.Instruction, c *ssa.CallCommon, fnv Value, args []Value, res ssa.Value, pc *Term, st *State, pos string, isGo bool) *Term {
	x := fr.x
	if b, ok := c.Value.(*ssa.Builtin); ok && !c.IsInvoke() {
		return fr.builtin(b, c, args, res, pc, st, pos)
	}
	callee, bind := fr.resolveCallee(c, fnv)
	sig := c.Signature()
	fr.atCallAsserts(c, callee, args, pc, st, pos)
	allArgs := args
	if c.IsInvoke() {
		allArgs = append([]Value{fnv}, args...)
	}
	if callee != nil {
		// devirtualised invoke: receiver must be converted from interface to concrete
		if c.IsInvoke() {
			recvT := callee.Signature.Recv().Type()
			rv := fr.unboxIface(fnv, recvT)
			allArgs = append([]Value{rv}, args...)
		}
		name := shortFuncName(callee)
		if inRepo(callee) {
			ct := x.W.ContractFor(callee)
			if ct == nil && x.W.NoInline[name] && name != x.root {
				return fr.unknownCall(c, callee, allArgs, res, pc, st, pos)
			}
			if ct != nil && !ct.Inline && !(x.mode.inlineAll()) {
				return fr.applyContract(ct, callee, callee.Signature, paramNames(callee), allArgs, res, pc, st, pos)
			}
			if len(callee.Blocks) > 0 && fr.depth < maxInlineDepth && !x.onStack(callee) {
				return fr.inline(callee, allArgs, bind, res, pc, st)
			}
			x.warn("call to %s not inlined (depth/recursion); treated as unknown", name)
			return fr.unknownCall(c, callee, allArgs, res, pc, st, pos)
		}
		// external
		if ct, ok := x.W.Specs.Contracts[externName(callee)]; ok {
			return fr.applyContract(ct, callee, callee.Signature, ct.Params, allArgs, res, pc, st, pos)
		}
		if x.pureExternal(callee) && len(callee.Blocks) > 0 && fr.depth < 4 && x.inlineExternal[externName(callee)] {
			return fr.inline(callee, allArgs, bind, res, pc, st)
		}
		return fr.unknownCall(c, callee, allArgs, res, pc, st, pos)
	}
	// unresolved: interface method or function value
	if c.IsInvoke() {
		recvT := types.Unalias(c.Value.Type())
		key := "(" + types.TypeString(recvT, nil) + ")." + c.Method.Name()
		if ct, ok := x.W.Specs.Contracts[key]; ok {
			return fr.applyContract(ct, nil, sig, ct.Params, allArgs, res, pc, st, pos)
		}
		sk := "(" + shortTypeKey(recvT) + ")." + c.Method.Name()
		if ct, ok := x.W.Specs.Contracts[sk]; ok {
			return fr.applyContract(ct, nil, sig, ct.Params, allArgs, res, pc, st, pos)
		}
	} else {
		// call through a function-typed field: contract attached to the field
		if fa := fieldOfLoad(c.Value); fa != "" {
			if ct, ok := x.W.Specs.Contracts["field "+fa]; ok {
				return fr.applyContract(ct, nil, sig, ct.Params, allArgs, res, pc, st, pos)
			}
		}
	}
	return fr.unknownCall(c, nil, allArgs, res, pc, st, pos)
}

func (m *Mode) inlineAll() bool { return false }

// fieldOfLoad returns "pkg.Type.field" if v is a load of a struct field.
func fieldOfLoad(v ssa.Value) string {
	u, ok := v.(*ssa.UnOp)
	if !ok || u.Op != token.MUL {
		return ""
	}
	fa, ok := u.X.(*ssa.FieldAddr)
	if !ok {
		return ""
	}
	stt := fa.X.Type().Underlying().(*types.Pointer).Elem()
	return shortTypeKey(stt) + "." + stt.Underlying().(*types.Struct).Field(fa.Field).Name()
}

func (x *X) onStack(fn *ssa.Function) bool {
	n := shortFuncName(fn)
	for _, s := range curFuncStack {
		if s == n {
			return true
		}
	}
	return false
}

func (fr *Frame) unboxIface(iv Value, to types.Type) Value {
	x := fr.x
	lay := LayoutOf(to)
	if len(lay.Leaves) == 1 && lay.Leaves[0].Sort == IntSort {
		return Value{T: to, L: []*Term{iv.L[1]}}
	}
	if bv, ok := x.boxed[iv.L[1]]; ok {
		return Value{T: to, L: bv.L}
	}
	return x.freshValue(to, "unbox")
}

func (fr *Frame) inline(callee *ssa.Function, args []Value, bind []Value, res ssa.Value, pc *Term, st *State) *Term {
	x := fr.x
	if len(args) != len(callee.Params) {
		panic(stopExec{fmt.Sprintf("inline %s: %d args for %d params", callee, len(args), len(callee.Params))})
	}
	typed := make([]Value, len(args))
	for i, a := range args {
		typed[i] = Value{T: callee.Params[i].Type(), L: a.L}
	}
	nf := x.newFrame(callee, typed, bind, fr.depth+1)
	nf.inDefer = fr.inDefer
	rpc, rst, vals := nf.run(pc, st)
	if rpc.IsFalse() {
		if os.Getenv("GOVC_TRACE") != "" {
			fmt.Fprintf(os.Stderr, "trace: inlined %s never returns (called from %s)\n", shortFuncName(callee), shortFuncName(fr.fn))
		}
		return rpc
	}
	*st = *rst
	fr.setResult(res, vals)
	return rpc
}

// ---- builtins ------------------------------------------------------------

func (fr *Frame) builtin(b *ssa.Builtin, c *ssa.CallCommon, args []Value, res ssa.Value, pc *Term, st *State, pos string) *Term {
	x := fr.x
	B := x.B
	set := func(t *Term) {
		if res != nil {
			fr.vals[res] = Value{T: res.Type(), L: []*Term{t}}
		}
	}
	switch b.Name() {
	case "len":
		switch u := c.Args[0].Type().Underlying().(type) {
		case *types.Slice:
			set(args[0].L[2])
		case *types.Basic:
			x.strLenFacts(args[0].One())
			set(x.strLen(args[0].One()))
		case *types.Array:
			set(B.Int(u.Len()))
		case *types.Pointer:
			set(B.Int(u.Elem().Underlying().(*types.Array).Len()))
		default:
			v := x.freshValue(res.Type(), "len")
			x.assume(pc, B.Le(B.Int(0), v.One()), "len >= 0")
			fr.vals[res] = v
		}
	case "cap":
		switch u := c.Args[0].Type().Underlying().(type) {
		case *types.Slice:
			set(args[0].L[3])
		case *types.Array:
			set(B.Int(u.Len()))
		default:
			fr.vals[res] = x.freshValue(res.Type(), "cap")
		}
	case "min", "max":
		cur := args[0].One()
		for _, a := range args[1:] {
			if cur.Sort != IntSort {
				fr.vals[res] = x.freshValue(res.Type(), "minmax")
				return pc
			}
			if b.Name() == "min" {
				cur = B.Ite(B.Le(cur, a.One()), cur, a.One())
			} else {
				cur = B.Ite(B.Le(cur, a.One()), a.One(), cur)
			}
		}
		set(cur)
	case "append":
		fr.vals[res] = fr.appendOp(c, args, pc, st)
	case "copy":
		set(fr.copyOp(c, args, pc, st))
	case "delete":
		name, ks, _ := x.mapHeapNames(c.Args[0].Type())
		if ks != nil {
			mv, key := args[0].One(), args[1].One()
			hn := name + "#has"
			hh := x.heapRead(st, hn, ArraySort(IntSort, ArraySort(ks, BoolSort)))
			x.heapSet(st, hn, B.Store(hh, mv, B.Store(B.Select(hh, mv), key, B.False())))
		}
	case "print", "println", "close", "clear":
	case "recover":
		if res != nil {
			fr.vals[res] = x.zeroValue(res.Type())
		}
	case "panic":
		return B.False()
	default:
		if res != nil {
			fr.vals[res] = x.freshValue(res.Type(), b.Name())
		}
	}
	return pc
}

func (fr *Frame) appendOp(c *ssa.CallCommon, args []Value, pc *Term, st *State) Value {
	x := fr.x
	B := x.B
	s := args[0]
	sl := c.Args[0].Type().Underlying().(*types.Slice)
	var addLen *Term
	var add Value
	isStr := false
	if bt, ok := c.Args[1].Type().Underlying().(*types.Basic); ok && bt.Info()&types.IsString != 0 {
		isStr = true
		addLen = x.strLen(args[1].One())
		x.strLenFacts(args[1].One())
	} else {
		add = args[1]
		addLen = add.L[2]
	}
	nb := x.freshRef("app")
	nlen := B.Add(s.L[2], addLen)
	ncap := x.B.Fresh("appcap", IntSort)
	x.assumeGlobal(B.And(B.Le(nlen, ncap), B.Le(ncap, B.BigInt(maxLen))), "append capacity")
	out := Value{T: s.T, L: []*Term{nb, B.Int(0), nlen, ncap}}
	// contents: prefix copied, suffix from the appended slice (when short and scalar)
	for _, lf := range LayoutOf(sl.Elem()).Leaves {
		if lf.Role == "array" || lf.Role == "opaque" {
			continue
		}
		n := "E:" + heapTypeName(sl.Elem()) + lf.Path
		srt := ArraySort(IntSort, ArraySort(IntSort, lf.Sort))
		h := x.heapRead(st, n, srt)
		oldArr := B.Select(h, s.L[0])
		newArr := B.Fresh("apparr", ArraySort(IntSort, lf.Sort))
		k := B.BoundVar(fmt.Sprintf("ak$%d", x.nextBound()), IntSort)
		x.assume(pc, B.Forall([]*Term{k}, B.Implies(B.And(B.Le(B.Int(0), k), B.Lt(k, s.L[2])),
			B.Eq(B.Select(newArr, k), B.Select(oldArr, B.Index(s.L[1], k))))), "append keeps prefix")
		if !isStr {
			addArr := B.Select(h, add.L[0])
			if addLen.IsLit() && addLen.Val.IsInt64() && addLen.Val.Int64() <= 8 {
				for j := int64(0); j < addLen.Val.Int64(); j++ {
					x.assume(pc, B.Eq(B.Select(newArr, B.Add(s.L[2], B.Int(j))), B.Select(addArr, B.Add(add.L[1], B.Int(j)))), "append element")
				}
			} else {
				x.assume(pc, B.Forall([]*Term{k}, B.Implies(B.And(B.Le(B.Int(0), k), B.Lt(k, addLen)),
					B.Eq(B.Select(newArr, B.Add(s.L[2], k)), B.Select(addArr, B.Add(add.L[1], k))))), "append suffix")
			}
		}
		x.heapSet(st, n, B.Store(h, nb, newArr))
	}
	return out
}

func (fr *Frame) copyOp(c *ssa.CallCommon, args []Value, pc *Term, st *State) *Term {
	x := fr.x
	B := x.B
	dst := args[0]
	sl := c.Args[0].Type().Underlying().(*types.Slice)
	var srcLen *Term
	var srcArr func(h *Term) *Term
	var srcOff *Term
	if bt, ok := c.Args[1].Type().Underlying().(*types.Basic); ok && bt.Info()&types.IsString != 0 {
		srcLen = x.strLen(args[1].One())
		x.strLenFacts(args[1].One())
		d := B.DeclFunc("strbytes", []*Sort{StrSort}, ArraySort(IntSort, IntSort))
		sa := B.App(d, args[1].One())
		srcArr = func(h *Term) *Term { return sa }
		srcOff = B.Int(0)
	} else {
		srcLen = args[1].L[2]
		srcOff = args[1].L[1]
		sb := args[1].L[0]
		srcArr = func(h *Term) *Term { return B.Select(h, sb) }
	}
	n := B.Ite(B.Le(dst.L[2], srcLen), dst.L[2], srcLen)
	for _, lf := range LayoutOf(sl.Elem()).Leaves {
		if lf.Role == "array" || lf.Role == "opaque" {
			continue
		}
		hn := "E:" + heapTypeName(sl.Elem()) + lf.Path
		srt := ArraySort(IntSort, ArraySort(IntSort, lf.Sort))
		h := x.heapRead(st, hn, srt)
		fr.frameCheckName(hn, dst.L[0], pc, "copy")
		oldArr := B.Select(h, dst.L[0])
		sa := srcArr(h)
		newArr := B.Fresh("cparr", ArraySort(IntSort, lf.Sort))
		k := B.BoundVar(fmt.Sprintf("ck$%d", x.nextBound()), IntSort)
		in := B.And(B.Le(dst.L[1], k), B.Lt(k, B.Add(dst.L[1], n)))
		x.assume(pc, B.Forall([]*Term{k}, B.Eq(B.Select(newArr, k),
			B.Ite(in, B.Select(sa, B.Index(srcOff, B.Sub(k, dst.L[1]))), B.Select(oldArr, k)))), "copy semantics")
		x.heapSet(st, hn, B.Store(h, dst.L[0], newArr))
	}
	return n
}

// ---- contracts -----------------------------------------------------------

type effectInst struct {
	name   string
	handle *Term // may be nil
	cond   *Term
	src    string
}

func (fr *Frame) applyContract(ct *Contract, callee *ssa.Function, sig *types.Signature, pnames []string, args []Value, res ssa.Value, pc *Term, st *State, pos string) *Term {
	x := fr.x
	B := x.B
	cname := ct.Func
	// parameter names: receiver first
	names := pnames
	if len(names) == 0 && callee != nil {
		names = paramNames(callee)
	}
	if len(names) == 0 {
		// p0, p1, ...
		for i := range args {
			names = append(names, fmt.Sprintf("p%d", i))
		}
	}
	if len(names) != len(args) {
		if len(names) < len(args) {
			for i := len(names); i < len(args); i++ {
				names = append(names, fmt.Sprintf("p%d", i))
			}
		} else {
			names = names[:len(args)]
		}
	}
	pre := st.clone()
	env := x.envForFunc(callee, sig, names, args, st, nil)
	if env.pkg == nil && fr.fn != nil {
		env.pkg = funcPkg(fr.fn)
	}
	// 1. requires
	for _, rq := range ct.Requires {
		if !x.active(rq) {
			continue
		}
		var t *Term
		if err := safeEval(func() { t = env.Bool(rq.Expr) }); err != nil {
			x.noteStale(fmt.Sprintf("contract %s (at a call in %s): requires %q: %v", cname, shortFuncName(fr.fn), rq.Src, err))
			continue
		}
		if x.mode.Functional || ct.Extern && (x.mode.Effects || x.mode.Sweep) {
			lbl := rq.Label
			if lbl == "" {
				lbl = truncate(rq.Src, 40)
			}
			o := x.oblige("requires", cname+":"+lbl, pos, pc, t)
			o.Extra = map[string]string{"requires": rq.Src}
		}
		x.assume(pc, t, "callee precondition (checked at call site) "+rq.Src)
	}
	// 2. effects
	if x.mode.Effects {
		for _, al := range ct.Allows {
			if x.active(al) {
				fr.checkEffect(ct, al, env, pc, pos)
			}
		}
		if callee != nil && inRepo(callee) {
			// the package-wide default rules are part of the callee's contract
			for _, d := range x.W.DefaultsFor(callee) {
				for _, cl := range d.Clauses {
					if cl.Kind == "allows" && x.active(cl) {
						fr.checkEffect(ct, cl, env, pc, pos)
					}
				}
			}
		}
	}
	if ct.MayExit != nil && x.mode.Sweep && !fr.inDefer {
		cond := B.True()
		if ct.MayExit.Expr != nil {
			if err := safeEval(func() { cond = env.Bool(ct.MayExit.Expr) }); err != nil {
				panic(stopExec{fmt.Sprintf("contract %s: mayexit: %v", cname, err)})
			}
		}
		o := x.oblige("exit", cname, pos, B.And(pc, cond), B.False())
		o.Extra = map[string]string{"what": "call may terminate the process"}
	}
	// 3. havoc frame
	if !ct.Pure {
		if callee != nil && inRepo(callee) {
			if gm := x.W.ghostMods(callee); len(gm) > 0 {
				x.havocNames(st, gm)
			}
		}
		if ct.HasMod {
			fr.havocModifies(ct.Modifies, env, st, pc)
			if contains(ct.Modifies, "*") && callee != nil && inRepo(callee) {
				// "*" = everything reachable through escaped pointers plus what the body names
				fr.applyModSet(x.W.fnModSet(callee), st, args)
			}
		} else if callee != nil && inRepo(callee) {
			ms := x.W.fnModSet(callee)
			fr.applyModSet(ms, st, args)
		} else if !ct.Extern {
			fr.externDefaultHavoc(args, st)
		}
		// an extern contract without a modifies clause declares the function
		// to leave the program's heap alone (externals.spec header)
	}
	for _, tn := range ct.Touches {
		for i, n := range names {
			if n == tn {
				x.havocGhostOf(st, args[i])
			}
		}
	}
	for _, pm := range ct.Permutes {
		for i, n := range names {
			if n == pm {
				fr.permuteSlice(args[i], pc, st)
			}
		}
	}
	// callbacks declared by "calls <param>"
	lambdas := map[string]*Lambda{}
	for _, cb := range ct.Calls {
		for i, n := range names {
			if n == cb.Names[0] {
				fr.cbOnce = cb.Label == "once"
				fr.cbRehavoc = func(s2 *State) {
					if ct.HasMod {
						fr.havocModifies(ct.Modifies, env, s2, pc)
					} else if !ct.Extern {
						fr.externDefaultHavoc(args, s2)
					}
				}
				lam := fr.runCallbackWith(args[i], pc, st, pos, cb.Expr, env)
				fr.cbOnce = false
				fr.cbRehavoc = nil
				if cb.Handle != "" && lam != nil {
					lambdas[cb.Handle] = lam
				}
			}
		}
	}
	// 4. results
	var vals []Value
	rnames := ct.Results
	for i := 0; i < sig.Results().Len(); i++ {
		v := x.freshValue(sig.Results().At(i).Type(), "ret_"+sanitize(shortName(cname)))
		vals = append(vals, v)
	}
	if len(rnames) == 0 {
		rnames = resultNames(sig)
	}
	fr.setResult(res, vals)
	x.recordEvent(pc, cname, vals, args)
	if ct.Fresh && len(vals) > 0 {
		var r *Term
		switch vals[0].T.Underlying().(type) {
		case *types.Pointer, *types.Map:
			r = vals[0].L[0]
		case *types.Interface:
			r = vals[0].L[1]
		}
		if r != nil {
			for _, o := range x.freshRefs {
				x.assumeGlobal(x.B.Neq(r, o), "fresh refs distinct")
			}
			for _, o := range x.paramRefs {
				x.assumeGlobal(x.B.Neq(r, o), "fresh ref distinct from parameter")
			}
			x.freshRefs = append(x.freshRefs, r)
			fr.distinctFromLive(r)
			x.unescaped[r] = true
		}
	}
	if callee != nil && inRepo(callee) {
		for _, a := range args {
			x.markEscaped(a)
		}
	}
	// 5. ensures
	post := x.envForFunc(callee, sig, names, args, st, pre)
	post.pkg = env.pkg
	post.bindResults(rnames, vals)
	for k, lam := range lambdas {
		post.vars[k] = SV{Lam: lam}
	}
	for _, en := range ct.Ensures {
		if strings.Contains(en.Src, "(") && len(ct.Calls) > 0 {
			// ensures that mention a callback predicate are skipped when it could not be captured
			skip := false
			for _, cb := range ct.Calls {
				if cb.Handle != "" && lambdas[cb.Handle] == nil && strings.Contains(en.Src, cb.Handle+"(") {
					skip = true
				}
			}
			if skip {
				continue
			}
		}
		var t *Term
		if err := safeEval(func() { t = post.Bool(en.Expr) }); err != nil {
			x.noteStale(fmt.Sprintf("contract %s (at a call in %s): ensures %q: %v", cname, shortFuncName(fr.fn), en.Src, err))
			continue
		}
		x.assume(pc, t, "callee postcondition "+cname+": "+en.Src)
	}
	x.usedContracts[cname] = ct
	return pc
}

func shortName(s string) string {
	if i := strings.LastIndex(s, "."); i >= 0 {
		return s[i+1:]
	}
	return s
}

func funcPkg(fn *ssa.Function) *types.Package {
	for fn.Parent() != nil {
		fn = fn.Parent()
	}
	if fn.Pkg != nil {
		return fn.Pkg.Pkg
	}
	if o := fn.Object(); o != nil {
		return o.Pkg()
	}
	return nil
}

// checkEffect: the callee may perform effect al; the root function must allow it.
func (fr *Frame) checkEffect(ct *Contract, al *Clause, env *Env, pc *Term, pos string) {
	x := fr.x
	B := x.B
	var handle *Term
	cond := B.True()
	if ct.Extern || al.Kind == "effect" {
		// handle is an expression over the callee's parameters
		if al.Handle != "" {
			hn, err := ParseSpecExpr(al.Handle)
			if err != nil {
				panic(stopExec{fmt.Sprintf("contract %s: effect handle %q: %v", ct.Func, al.Handle, err)})
			}
			if err := safeEval(func() { handle = env.term(env.eval(hn)) }); err != nil {
				panic(stopExec{fmt.Sprintf("contract %s: effect handle %q: %v", ct.Func, al.Handle, err)})
			}
		}
		if al.Expr != nil {
			if err := safeEval(func() { cond = env.Bool(al.Expr) }); err != nil {
				panic(stopExec{fmt.Sprintf("contract %s: effect condition: %v", ct.Func, err)})
			}
		}
	} else {
		// in-repo callee contract: "allows E(h) if cond(h)" with h bound
		if al.Handle != "" {
			srt := x.effectSort(al.Effect)
			handle = B.Fresh("h_"+al.Effect, srt)
			ne := *env
			ne.vars = map[string]SV{}
			for k, v := range env.vars {
				ne.vars[k] = v
			}
			ne.vars[al.Handle] = svTerm(handle)
			env = &ne
		}
		if al.Expr != nil {
			if err := safeEval(func() { cond = env.Bool(al.Expr) }); err != nil {
				panic(stopExec{fmt.Sprintf("contract %s: allows condition %q: %v", ct.Func, al.Src, err)})
			}
		}
	}
	x.emitEffect(effectInst{name: al.Effect, handle: handle, cond: cond, src: ct.Func}, pc, pos)
}

func (x *X) effectSort(name string) *Sort {
	switch name {
	case "pathwrite", "pathread":
		return StrSort
	}
	return IntSort
}

// emitEffect generates the obligation that the root function's contract
// allows the effect under the current path condition.
func (x *X) emitEffect(e effectInst, pc *Term, pos string) {
	B := x.B
	if !x.mode.Effects || x.rootAllows == nil {
		return
	}
	if x.untracked[e.name] {
		return
	}
	var alts []*Term
	for _, al := range x.rootAllows {
		if al.Effect != e.name {
			continue
		}
		env := *x.rootEnv
		env.vars = map[string]SV{}
		for k, v := range x.rootEnv.vars {
			env.vars[k] = v
		}
		if al.Handle != "" {
			if e.handle == nil {
				continue
			}
			env.vars[al.Handle] = svTerm(e.handle)
		}
		c := B.True()
		if al.Expr != nil {
			var hsort *Sort
			if e.handle != nil {
				hsort = e.handle.Sort
			}
			_ = hsort
			if err := safeEval(func() { c = env.Bool(al.Expr) }); err != nil {
				panic(stopExec{fmt.Sprintf("root allows clause %q: %v", al.Src, err)})
			}
		}
		alts = append(alts, c)
	}
	o := x.oblige("effect", e.name+":"+e.src, pos, B.And(pc, e.cond), B.Or(alts...))
	o.Extra = map[string]string{"effect": e.name, "source": e.src}
}

// havocModifies forgets what a contract's modifies clause lists.
func (fr *Frame) havocModifies(names []string, env *Env, st *State, pc *Term) {
	x := fr.x
	var prefixes []string
	for _, n := range names {
		switch {
		case n == "*":
			x.havocAll(st)
			for _, id := range sortedCellIDs(st.cells) {
				if x.cellEscaped[id] {
					st.cells[id] = x.freshValue(st.cells[id].T, "cell")
				}
			}
			return
		case n == "nothing":
		case strings.HasPrefix(n, "ghost."):
			prefixes = append(prefixes, "ghost:"+strings.TrimPrefix(n, "ghost."))
		case len(n) > 2 && n[1] == ':':
			prefixes = append(prefixes, n)
		case strings.HasPrefix(n, "deref(") && strings.HasSuffix(n, ")"):
			// deref(p): what the pointer argument p (possibly boxed in an interface) points to
			e, err := ParseSpecExpr(strings.TrimSuffix(strings.TrimPrefix(n, "deref("), ")"))
			if err != nil {
				panic(stopExec{"modifies: " + err.Error()})
			}
			var sv SV
			if err := safeEval(func() { sv = env.eval(e) }); err != nil {
				panic(stopExec{"modifies " + n + ": " + err.Error()})
			}
			fr.externDefaultHavoc([]Value{*sv.V}, st)
		case strings.HasPrefix(n, "contents(") && strings.HasSuffix(n, ")"):
			// contents(expr): the backing array of a slice-valued expression
			e, err := ParseSpecExpr(strings.TrimSuffix(strings.TrimPrefix(n, "contents("), ")"))
			if err != nil {
				panic(stopExec{"modifies: " + err.Error()})
			}
			var sv SV
			if err := safeEval(func() { sv = env.eval(e) }); err != nil {
				panic(stopExec{"modifies " + n + ": " + err.Error()})
			}
			fr.havocSliceContents(*sv.V, st)
		default:
			// expression rooted at a parameter (p.f.g) or Type.field
			if e, err := ParseSpecExpr(n); err == nil && e.Kind == "sel" {
				root := e
				for root.Kind == "sel" {
					root = root.Args[0]
				}
				if root.Kind == "ident" {
					if _, isVar := env.vars[root.Name]; isVar {
						fr.havocPath(e, env, st)
						continue
					}
				}
			}
			prefixes = append(prefixes, "F:"+n)
		}
	}
	if len(prefixes) > 0 {
		for _, p := range prefixes {
			fr.frameCheckPrefix(p, pc)
		}
		x.havocNames(st, prefixes)
	}
}

// havocPath forgets exactly one field of one object: p.f
func (fr *Frame) havocPath(e *SNode, env *Env, st *State) {
	x := fr.x
	var base SV
	if err := safeEval(func() { base = env.eval(e.Args[0]) }); err != nil {
		panic(stopExec{"modifies " + e.String() + ": " + err.Error()})
	}
	v := *base.V
	p, ok := v.T.Underlying().(*types.Pointer)
	if !ok {
		panic(stopExec{"modifies " + e.String() + ": base is not a pointer"})
	}
	stt, ok := p.Elem().Underlying().(*types.Struct)
	if !ok {
		panic(stopExec{"modifies " + e.String() + ": not a struct field"})
	}
	idx, ft := findField(stt, e.Name)
	if idx < 0 {
		panic(stopExec{"modifies " + e.String() + ": no such field"})
	}
	l := x.locOf(v.One(), p.Elem())
	nl := *l
	nl.Path += "." + e.Name
	fr.frameCheck(&nl, ft, x.B.True(), "modifies")
	x.store(st, &nl, x.freshValue(ft, "mod_"+e.Name))
}

func (fr *Frame) havocSliceContents(v Value, st *State) {
	x := fr.x
	sl, ok := v.T.Underlying().(*types.Slice)
	if !ok {
		return
	}
	for _, lf := range LayoutOf(sl.Elem()).Leaves {
		if lf.Role == "array" || lf.Role == "opaque" {
			continue
		}
		n := "E:" + heapTypeName(sl.Elem()) + lf.Path
		srt := ArraySort(IntSort, ArraySort(IntSort, lf.Sort))
		h := x.heapRead(st, n, srt)
		B := x.B
		hv := B.Fresh("hv", ArraySort(IntSort, lf.Sort))
		// only the elements inside the slice's range may change
		k := B.BoundVar(fmt.Sprintf("hk$%d", x.nextBound()), IntSort)
		outside := B.Or(B.Lt(k, v.L[1]), B.Le(B.Add(v.L[1], v.L[2]), k))
		x.assumeGlobal(B.Forall([]*Term{k}, B.Implies(outside, B.Eq(B.Select(hv, k), B.Select(B.Select(h, v.L[0]), k)))), "a callee writes only inside the slice it is given")
		x.heapSet(st, n, B.Store(h, v.L[0], hv))
	}
}

// externDefaultHavoc: an external function without a modifies clause may
// write through the pointers and slices it is given.
func (fr *Frame) externDefaultHavoc(args []Value, st *State) {
	x := fr.x
	for _, a := range args {
		switch u := a.T.Underlying().(type) {
		case *types.Slice:
			fr.havocSliceContents(a, st)
		case *types.Pointer:
			l := x.locOf(a.One(), u.Elem())
			if l.Kind == LCell {
				x.cellEscaped[l.Cell] = true
			}
			x.store(st, l, x.freshValue(u.Elem(), "extw"))
		case *types.Interface:
			// may call methods of the dynamic value; in-repo wrappers only count bytes
			x.havocNames(st, []string{"F:rsyncwire.CountingReader.BytesRead", "F:rsyncwire.CountingWriter.BytesWritten"})
			if bv, ok := x.boxed[a.L[1]]; ok {
				_ = bv
			}
			if l, ok := x.ptrTable[a.L[1]]; ok {
				// pointer to a local wrapped in an interface (e.g. binary.Read(r, order, &x))
				if l.Kind == LCell {
					if old, ok := st.cells[l.Cell]; ok {
						st.cells[l.Cell] = x.freshValue(old.T, "extw")
					}
				} else if l.T != nil {
					t := x.pointeeType(l)
					if t != nil {
						x.store(st, l, x.freshValue(t, "extw"))
					}
				}
			} else if a.L[0].IsLit() {
				// known dynamic type: pointer to struct -> havoc that object
				if ct := x.typeFromID(a.L[0].Val.Int64()); ct != nil {
					if p, ok := ct.Underlying().(*types.Pointer); ok {
						if _, isStruct := p.Elem().Underlying().(*types.Struct); isStruct && !isExternalType(p.Elem()) {
							l := x.locOf(a.L[1], p.Elem())
							x.store(st, l, x.freshValue(p.Elem(), "extw"))
						} else if _, isArr := p.Elem().Underlying().(*types.Array); isArr {
							l := x.locOf(a.L[1], p.Elem())
							x.store(st, l, x.freshValue(p.Elem(), "extw"))
						} else if scalarSort(p.Elem()) != nil {
							l := x.locOf(a.L[1], p.Elem())
							if l.Kind == LCell {
								if old, ok := st.cells[l.Cell]; ok {
									st.cells[l.Cell] = x.freshValue(old.T, "extw")
								}
							}
						}
					}
				}
			}
		}
	}
}

func isExternalType(t types.Type) bool {
	if n, ok := t.(*types.Named); ok && n.Obj().Pkg() != nil {
		return !strings.HasPrefix(n.Obj().Pkg().Path(), repoMod)
	}
	return false
}

func (x *X) pointeeType(l *Loc) types.Type {
	if l.Path == "" {
		return l.T
	}
	return nil
}

// unknownCall: no contract, not inlinable.
func (fr *Frame) unknownCall(c *ssa.CallCommon, callee *ssa.Function, args []Value, res ssa.Value, pc *Term, st *State, pos string) *Term {
	x := fr.x
	B := x.B
	sig := c.Signature()
	name := "<dynamic>"
	if callee != nil {
		name = externName(callee)
	} else if c.IsInvoke() {
		name = "(" + types.TypeString(types.Unalias(c.Value.Type()), nil) + ")." + c.Method.Name()
	}
	// effects
	if x.mode.Effects {
		if callee != nil && inRepo(callee) {
			// a root analysed separately: its default allows are what it may do
			env := x.envForFunc(callee, callee.Signature, paramNames(callee), args, st, nil)
			dummy := &Contract{Func: shortFuncName(callee)}
			for _, d := range x.W.DefaultsFor(callee) {
				for _, cl := range d.Clauses {
					if cl.Kind == "allows" && x.active(cl) {
						fr.checkEffect(dummy, cl, env, pc, pos)
					}
				}
			}
		}
		if callee != nil && !inRepo(callee) {
			if eff := x.defaultExternEffect(callee); eff != "" {
				x.emitEffect(effectInst{name: eff, cond: B.True(), src: name}, pc, pos)
			}
		}
	}
	if x.mode.Sweep && callee != nil && !fr.inDefer {
		if isExitFunc(callee) {
			o := x.oblige("exit", name, pos, pc, B.False())
			o.Extra = map[string]string{"what": "process exit reachable"}
			return B.False()
		}
	}
	// memory
	if callee == nil || inRepo(callee) {
		for _, a := range args {
			x.markEscaped(a)
		}
	}
	if callee != nil && inRepo(callee) {
		if gm := x.W.ghostMods(callee); len(gm) > 0 {
			x.havocNames(st, gm)
		}
	} else if callee == nil {
		for _, cand := range x.W.possibleCallees(c) {
			if gm := x.W.ghostMods(cand); len(gm) > 0 {
				x.havocNames(st, gm)
			}
		}
	}
	if callee != nil && inRepo(callee) {
		fr.applyModSet(x.W.fnModSet(callee), st, args)
	} else if callee == nil {
		// dynamic dispatch: union over in-repo candidates
		ms := x.W.dynModSet(c)
		fr.applyModSet(ms, st, args)
		fr.externDefaultHavoc(args[min(1, len(args)):], st)
	} else {
		fr.externDefaultHavoc(args, st)
	}
	// closures passed as arguments may be invoked
	for _, a := range args {
		if _, ok := a.T.Underlying().(*types.Signature); ok {
			fr.runCallback(a, pc, st, pos)
		}
	}
	// per-object ghost state (bytes written to a writer, ...) of every object
	// handed to code we know nothing about becomes unknown
	if callee == nil || !inRepo(callee) {
		for _, a := range args {
			x.havocGhostOf(st, a)
		}
	}
	var vals []Value
	for i := 0; i < sig.Results().Len(); i++ {
		vals = append(vals, x.freshValue(sig.Results().At(i).Type(), "ret_"+sanitize(shortName(name))))
	}
	fr.setResult(res, vals)
	x.recordEvent(pc, name, vals, args)
	x.unknownCalls[name]++
	return pc
}

func isExitFunc(fn *ssa.Function) bool {
	switch fn.String() {
	case "os.Exit", "log.Fatal", "log.Fatalf", "log.Fatalln", "(*log.Logger).Fatal", "(*log.Logger).Fatalf", "(*log.Logger).Fatalln", "runtime.Goexit", "syscall.Exit":
		return true
	}
	return false
}

var sideEffectPkgs = map[string]bool{
	"os": true, "syscall": true, "golang.org/x/sys/unix": true, "io/ioutil": true, "os/exec": true,
	"net": true, "net/http": true, "github.com/google/renameio/v2": true, "os/signal": true,
	"github.com/landlock-lsm/go-landlock/landlock": true, "golang.org/x/crypto/ssh": true,
}

var sideEffectFuncs = map[string]bool{
	"path/filepath.Walk": true, "path/filepath.WalkDir": true, "path/filepath.Glob": true, "path/filepath.EvalSymlinks": true,
	"io/fs.ReadFile": true, "io/fs.ReadDir": true, "io/fs.Stat": true, "io/fs.Glob": true,
}

func (x *X) defaultExternEffect(fn *ssa.Function) string {
	pkg := ""
	if fn.Pkg != nil {
		pkg = fn.Pkg.Pkg.Path()
	} else if o := fn.Object(); o != nil && o.Pkg() != nil {
		pkg = o.Pkg().Path()
	}
	if sideEffectPkgs[pkg] || sideEffectFuncs[fn.String()] {
		if x.W.harmlessExtern[fn.String()] {
			return ""
		}
		return "ambient"
	}
	return ""
}

func (x *X) pureExternal(fn *ssa.Function) bool { return true }

// runCallback analyses one abstract invocation of a closure that an
// external function may call any number of times.
func (fr *Frame) runCallback(fv Value, pc *Term, st *State, pos string) {
	fr.runCallbackWith(fv, pc, st, pos, nil, nil)
}

// runCallbackWith: cond (optional) constrains the callback's arguments,
// named arg0, arg1, ... and evaluated in the callee contract's environment.
// It returns the callback's result as a function of its arguments when the
// callback has a single scalar result.
func (fr *Frame) runCallbackWith(fv Value, pc *Term, st *State, pos string, cond *SNode, cenv *Env) *Lambda {
	x := fr.x
	if len(fv.L) != 1 {
		return nil
	}
	cl, ok := x.funcTab[fv.L[0]]
	if !ok || !inRepo(cl.Fn) || len(cl.Fn.Blocks) == 0 {
		return nil
	}
	ms := x.W.fnModSet(cl.Fn)
	havoc := func() {
		fr.applyModSet(ms, st, nil)
		// captured cells the closure (transitively) writes
		for i, b := range cl.Bind {
			if ms.freeVars[i] || ms.all {
				if p, ok := b.T.Underlying().(*types.Pointer); ok {
					l := x.locOf(b.One(), p.Elem())
					if l.Kind == LCell {
						if old, ok := st.cells[l.Cell]; ok {
							st.cells[l.Cell] = x.freshValue(old.T, "cbcell")
						}
					}
				}
			}
		}
	}
	once := fr.cbOnce
	var pres *presEval
	if !once {
		// a callback that may run any number of times: what it "preserves" holds before the
		// first call (obligation), hence before and after every call (induction over the calls;
		// the clause may not read anything the calling function itself changes)
		pres = fr.callbackPreserves(cl)
		pres.check(fr, pc, st, pos)
		havoc()
		pres.assume(fr, pc, st)
	}
	var params []Value
	for _, p := range cl.Fn.Params {
		params = append(params, x.freshValue(p.Type(), "cb_"+p.Name()))
	}
	if cct := x.W.ContractFor(cl.Fn); cct != nil {
		// verified separately against its own contract; its preconditions
		// must hold whenever the external function may call it (with the arguments the
		// external function's contract promises: "calls f with <cond>")
		if cond != nil && cenv != nil {
			ne := *cenv
			ne.vars = map[string]SV{}
			for k, v := range cenv.vars {
				ne.vars[k] = v
			}
			for i, p := range params {
				ne.vars[fmt.Sprintf("arg%d", i)] = svValue(p)
			}
			var t *Term
			if err := safeEval(func() { t = ne.Bool(cond) }); err != nil {
				panic(stopExec{"calls ... with: " + err.Error()})
			}
			x.assume(pc, t, "callback argument constraint")
		}
		fr.checkClosureRequires(cct, cl, params, pc, st, pos)
		return nil
	}
	if fr.depth >= maxInlineDepth || x.onStack(cl.Fn) {
		return nil
	}
	if cond != nil && cenv != nil {
		ne := *cenv
		ne.vars = map[string]SV{}
		for k, v := range cenv.vars {
			ne.vars[k] = v
		}
		for i, p := range params {
			ne.vars[fmt.Sprintf("arg%d", i)] = svValue(p)
		}
		var t *Term
		if err := safeEval(func() { t = ne.Bool(cond) }); err != nil {
			panic(stopExec{"calls ... with: " + err.Error()})
		}
		x.assume(pc, t, "callback argument constraint")
	}
	nf := x.newFrame(cl.Fn, params, cl.Bind, fr.depth+1)
	nf.inDefer = fr.inDefer
	s1 := st.clone()
	rpc1, rst1, rvals := nf.run(pc, s1)
	if once && !rpc1.IsFalse() {
		*st = *rst1
		return nil
	}
	havoc()
	pres.assume(fr, pc, st)
	if len(rvals) == 1 && len(rvals[0].L) == 1 {
		lam := &Lambda{Result: rvals[0].L[0]}
		for _, p := range params {
			if len(p.L) != 1 {
				return nil
			}
			lam.Params = append(lam.Params, p.L[0])
		}
		return lam
	}
	return nil
}

// presEval evaluates the "preserves" clauses of the function behind a callback value: a closure
// with a contract, or a bound method whose method has one.
type presEval struct {
	cct    *Contract
	target *ssa.Function
	cl     *FuncVal
	params map[string]Value
}

// boundVarNum: the numbering of bound variables, which differs between two evaluations of a clause
var boundVarNum = regexp.MustCompile(`\$[0-9]+`)

// boundTarget: the method a bound-method wrapper calls.
func boundTarget(fn *ssa.Function) *ssa.Function {
	if !strings.HasPrefix(fn.Synthetic, "bound method wrapper") || len(fn.Blocks) == 0 {
		return nil
	}
	for _, in := range fn.Blocks[0].Instrs {
		if c, ok := in.(*ssa.Call); ok {
			return c.Call.StaticCallee()
		}
	}
	return nil
}

func (fr *Frame) callbackPreserves(cl *FuncVal) *presEval {
	x := fr.x
	target := cl.Fn
	if t := boundTarget(cl.Fn); t != nil {
		target = t
	}
	cct := x.W.ContractFor(target)
	if cct == nil {
		return nil
	}
	n := 0
	for _, p := range cct.Preserves {
		if x.active(p) {
			n++
		}
	}
	if n == 0 {
		return nil
	}
	pe := &presEval{cct: cct, target: target, cl: cl, params: map[string]Value{}}
	for i, p := range target.Params {
		if target != cl.Fn && i == 0 && len(cl.Bind) > 0 {
			pe.params[p.Name()] = cl.Bind[0] // the bound receiver
			continue
		}
		pe.params[p.Name()] = x.freshValue(p.Type(), "cbp_"+p.Name())
	}
	return pe
}

func (pe *presEval) terms(fr *Frame, st *State) []*Term {
	x := fr.x
	env := x.envForFunc(pe.target, pe.target.Signature, nil, nil, st, nil)
	if pe.target == pe.cl.Fn {
		for i, fv := range pe.cl.Fn.FreeVars {
			if i >= len(pe.cl.Bind) {
				break
			}
			if p, ok := fv.Type().Underlying().(*types.Pointer); ok {
				l := x.locOf(pe.cl.Bind[i].One(), p.Elem())
				if l.Kind == LCell {
					if v, ok := st.cells[l.Cell]; ok {
						env.vars[fv.Name()] = svValue(v)
					}
					continue
				}
			}
			env.vars[fv.Name()] = svValue(pe.cl.Bind[i])
		}
	}
	for n, v := range pe.params {
		env.vars[n] = svValue(v)
	}
	var out []*Term
	for _, p := range pe.cct.Preserves {
		if !x.active(p) {
			continue
		}
		var t *Term
		if err := safeEval(func() { t = env.Bool(p.Expr) }); err != nil {
			panic(stopExec{fmt.Sprintf("callback %s: preserves %q: %v", pe.cct.Func, p.Src, err)})
		}
		out = append(out, t)
	}
	return out
}

func (pe *presEval) check(fr *Frame, pc *Term, st *State, pos string) {
	if pe == nil {
		return
	}
	x := fr.x
	ts := pe.terms(fr, st)
	if fr.cbRehavoc != nil {
		s2 := st.clone()
		fr.cbRehavoc(s2)
		for i, t2 := range pe.terms(fr, s2) {
			if t2 != ts[i] && boundVarNum.ReplaceAllString(t2.String(), "$$") != boundVarNum.ReplaceAllString(ts[i].String(), "$$") {
				if os.Getenv("GOVC_TRACE") != "" {
					fmt.Fprintf(os.Stderr, "trace: preserves term before/after re-havoc:\n  %s\n  %s\n", ts[i], t2)
				}
				panic(stopExec{fmt.Sprintf("callback %s: a preserves clause reads state that the function calling it changes itself", pe.cct.Func)})
			}
		}
	}
	k := 0
	for _, p := range pe.cct.Preserves {
		if !x.active(p) {
			continue
		}
		if x.mode.Functional {
			lbl := p.Label
			if lbl == "" {
				lbl = truncate(p.Src, 40)
			}
			o := x.oblige("requires", pe.cct.Func+":"+lbl, pos, pc, ts[k])
			o.Extra = map[string]string{"requires": p.Src, "what": "what a callback preserves holds when it is handed out"}
		}
		k++
	}
}

func (pe *presEval) assume(fr *Frame, pc *Term, st *State) {
	if pe == nil {
		return
	}
	for _, t := range pe.terms(fr, st) {
		fr.x.assume(pc, t, "preserved by every call of the callback "+pe.cct.Func)
	}
}

// checkClosureRequires: a closure with its own contract is handed to code
// that will call it: the closure's requires (over its captured variables)
// must hold now.
func (fr *Frame) checkClosureRequires(cct *Contract, cl *FuncVal, params []Value, pc *Term, st *State, pos string) {
	x := fr.x
	if !x.mode.Functional || len(cct.Requires) == 0 {
		return
	}
	env := x.envForFunc(cl.Fn, cl.Fn.Signature, nil, nil, st, nil)
	for i, fv := range cl.Fn.FreeVars {
		if i >= len(cl.Bind) {
			break
		}
		if p, ok := fv.Type().Underlying().(*types.Pointer); ok {
			l := x.locOf(cl.Bind[i].One(), p.Elem())
			if l.Kind == LCell {
				if v, ok := st.cells[l.Cell]; ok {
					env.vars[fv.Name()] = svValue(v)
				}
				continue
			}
		}
		env.vars[fv.Name()] = svValue(cl.Bind[i])
	}
	for i, p := range cl.Fn.Params {
		if i < len(params) {
			env.vars[p.Name()] = svValue(params[i])
		} else {
			env.vars[p.Name()] = svValue(x.freshValue(p.Type(), "cbp_"+p.Name()))
		}
	}
	for _, rq := range cct.Requires {
		if !x.active(rq) {
			continue
		}
		var t *Term
		if err := safeEval(func() { t = env.Bool(rq.Expr) }); err != nil {
			panic(stopExec{fmt.Sprintf("closure %s: requires %q: %v", cct.Func, rq.Src, err)})
		}
		lbl := rq.Label
		if lbl == "" {
			lbl = truncate(rq.Src, 40)
		}
		o := x.oblige("requires", cct.Func+":"+lbl, pos, pc, t)
		o.Extra = map[string]string{"requires": rq.Src, "what": "precondition of a callback at the point it is handed out"}
	}
}

// ---- frame checks ---------------------------------------------------------

func (fr *Frame) frameCheck(l *Loc, t types.Type, pc *Term, pos string) {
	x := fr.x
	if !x.mode.Functional || x.rootModifies == nil {
		return
	}
	switch l.Kind {
	case LCell:
		return
	case LObj, LArr, LBox:
		if x.isFresh[l.Ref] {
			return
		}
	case LElem:
		if x.isFresh[l.Ref] {
			return
		}
	}
	var name string
	switch l.Kind {
	case LObj:
		name = "F:" + heapTypeName(l.T) + l.Path
	case LElem, LArr:
		name = "E:" + heapTypeName(l.T) + l.Path
	case LBox:
		name = "B:" + heapTypeName(l.T)
	case LGlobal:
		name = "G:" + l.Name + l.Path
	}
	fr.frameCheckName(name, l.Ref, pc, pos)
}

func (fr *Frame) frameCheckName(name string, ref *Term, pc *Term, pos string) {
	x := fr.x
	if !x.mode.Functional || x.rootModifies == nil {
		return
	}
	if ref != nil && x.isFresh[ref] {
		return
	}
	if strings.HasPrefix(name, "ghost:") {
		// ghost state is framed by the body-derived ghost mod-sets, not by contracts
		return
	}
	for _, m := range x.rootModifies {
		if m == "*" || strings.HasPrefix(name, m) || strings.HasPrefix(m, name) {
			return
		}
	}
	o := x.oblige("frame", name, pos, pc, x.B.False())
	o.Extra = map[string]string{"what": "write outside the modifies clause"}
}

func (fr *Frame) frameCheckPrefix(prefix string, pc *Term) {
	fr.frameCheckName(prefix, nil, pc, "callee-modifies")
}

// ---- invariants -----------------------------------------------------------

func (fr *Frame) evalInvariant(inv *Clause, lp *Loop, st *State, phiOverride map[*ssa.Phi]Value) *Term {
	x := fr.x
	env := fr.rootEnv(st)
	env.lookup = func(name string) (SV, bool) { return fr.resolveLocal(name, lp, st, phiOverride) }
	var t *Term
	if err := safeEval(func() { t = env.Bool(inv.Expr) }); err != nil {
		// the clause no longer fits the code (e.g. a local it names is gone): drop it, remember it
		x.noteStale(fmt.Sprintf("%s: loop %d invariant %q: %v", shortFuncName(fr.fn), lp.Ordinal, inv.Src, err))
		return x.B.True()
	}
	return t
}

// rootEnv: parameters by name, old = entry state.
func (fr *Frame) rootEnv(st *State) *Env {
	x := fr.x
	env := x.envForFunc(fr.fn, fr.fn.Signature, paramNames(fr.fn), fr.params, st, fr.entry)
	// free variables by name
	for i, fv := range fr.fn.FreeVars {
		if p, ok := fv.Type().Underlying().(*types.Pointer); ok {
			l := x.locOf(fr.bind[i].One(), p.Elem())
			if l.Kind == LCell {
				if v, ok := st.cells[l.Cell]; ok {
					env.vars[fv.Name()] = svValue(v)
				}
			}
		}
	}
	return env
}

// resolveLocal finds the value of a source-level local variable at a loop
// header (or at the current point when lp is nil).
func (fr *Frame) resolveLocal(name string, lp *Loop, st *State, phiOverride map[*ssa.Phi]Value) (SV, bool) {
	x := fr.x
	// 1. address-taken locals: Alloc with that comment
	if as := fr.allocs[name]; len(as) > 0 {
		for _, a := range as {
			if pv, ok := fr.vals[a]; ok {
				l := x.locOf(pv.One(), a.Type().(*types.Pointer).Elem())
				if l.Kind == LCell {
					if v, ok := st.cells[l.Cell]; ok {
						return svValue(v), true
					}
				} else {
					return svValue(x.load(st, l, a.Type().(*types.Pointer).Elem())), true
				}
			}
		}
	}
	// 2. phi at the loop header
	if lp != nil {
		for _, in := range lp.Header.Instrs {
			phi, ok := in.(*ssa.Phi)
			if !ok {
				break
			}
			if phi.Comment == name {
				if phiOverride != nil {
					if v, ok := phiOverride[phi]; ok {
						return svValue(Value{T: phi.Type(), L: v.L}), true
					}
				}
				if v, ok := fr.vals[phi]; ok {
					return svValue(v), true
				}
			}
		}
	}
	// 3. a DebugRef for that identifier whose value is already computed and
	// whose block dominates the loop header
	var best *dbgRef
	for i := range fr.dbg[name] {
		d := &fr.dbg[name][i]
		if _, ok := fr.vals[d.instr.X]; !ok {
			if _, isConst := d.instr.X.(*ssa.Const); !isConst {
				continue
			}
		}
		if lp != nil && !d.block.Dominates(lp.Header) {
			continue
		}
		if best == nil || best.block.Dominates(d.block) {
			best = d
		}
	}
	if best != nil {
		return svValue(fr.val(best.instr.X)), true
	}
	return SV{}, false
}

// ---- mod-sets -------------------------------------------------------------

type ModSet struct {
	all      bool
	names    map[string]bool // heap name prefixes
	freeVars map[int]bool    // stores through free variable i (closures)
	allocs   map[*ssa.Alloc]bool
}

func newModSet() *ModSet {
	return &ModSet{names: map[string]bool{}, freeVars: map[int]bool{}, allocs: map[*ssa.Alloc]bool{}}
}

func (m *ModSet) union(o *ModSet, viaClosure *ssa.MakeClosure) bool {
	changed := false
	if o.all && !m.all {
		m.all = true
		changed = true
	}
	for n := range o.names {
		if !m.names[n] {
			m.names[n] = true
			changed = true
		}
	}
	if viaClosure != nil {
		for i := range o.freeVars {
			if i < len(viaClosure.Bindings) {
				switch b := viaClosure.Bindings[i].(type) {
				case *ssa.Alloc:
					if !m.allocs[b] {
						m.allocs[b] = true
						changed = true
					}
				case *ssa.FreeVar:
					for j, fv := range b.Parent().FreeVars {
						if fv == b && !m.freeVars[j] {
							m.freeVars[j] = true
							changed = true
						}
					}
				}
			}
		}
	}
	return changed
}

func storeTargetName(addr ssa.Value) (name string, kind string) {
	switch a := addr.(type) {
	case *ssa.FieldAddr:
		stt := a.X.Type().Underlying().(*types.Pointer).Elem()
		f := stt.Underlying().(*types.Struct).Field(a.Field)
		// interior chains: x.a.b -> root type of innermost FieldAddr chain
		prefix := ""
		cur := a
		for {
			if inner, ok := cur.X.(*ssa.FieldAddr); ok {
				ist := inner.X.Type().Underlying().(*types.Pointer).Elem()
				prefix = "." + ist.Underlying().(*types.Struct).Field(inner.Field).Name() + prefix
				cur = inner
				continue
			}
			break
		}
		root := cur.X.Type().Underlying().(*types.Pointer).Elem()
		if ia, ok := cur.X.(*ssa.IndexAddr); ok {
			_ = ia
			return "E:" + heapTypeName(root) + prefix + "." + f.Name(), "heap"
		}
		return "F:" + heapTypeName(root) + prefix + "." + f.Name(), "heap"
	case *ssa.IndexAddr:
		var et types.Type
		switch u := a.X.Type().Underlying().(type) {
		case *types.Slice:
			et = u.Elem()
		case *types.Pointer:
			et = u.Elem().Underlying().(*types.Array).Elem()
		}
		return "E:" + heapTypeName(et), "heap"
	case *ssa.Alloc:
		return "", "alloc"
	case *ssa.FreeVar:
		return "", "freevar"
	case *ssa.Global:
		return "G:" + shortPkgPath(a.Pkg.Pkg.Path()) + "." + a.Name(), "heap"
	}
	return "", "unknown"
}

func (w *World) fnModSet(fn *ssa.Function) *ModSet {
	w.computeModSets()
	if ms, ok := w.modsets[fn]; ok {
		return ms
	}
	ms := newModSet()
	ms.all = true
	return ms
}

func (w *World) computeModSets() {
	if w.modsets != nil {
		return
	}
	w.modsets = map[*ssa.Function]*ModSet{}
	type edge struct {
		callee  *ssa.Function
		closure *ssa.MakeClosure
	}
	edges := map[*ssa.Function][]edge{}
	var fns []*ssa.Function
	for _, fn := range w.Funcs {
		fns = append(fns, fn)
	}
	sort.Slice(fns, func(i, j int) bool { return fns[i].String() < fns[j].String() })
	for _, fn := range fns {
		ms := newModSet()
		w.modsets[fn] = ms
		if ct := w.ContractFor(fn); ct != nil && ct.HasMod && !contains(ct.Modifies, "*") {
			for _, n := range ct.Modifies {
				switch {
				case n == "*":
					ms.all = true
				case n == "nothing":
				case strings.HasPrefix(n, "ghost."):
					ms.names["ghost:"+strings.TrimPrefix(n, "ghost.")] = true
				case len(n) > 2 && n[1] == ':':
					ms.names[n] = true
				case strings.HasPrefix(n, "contents("):
					ms.names[contentsHeapName(n, fn)] = true
				default:
					// p.f rooted at a parameter: resolve the parameter's type
					parts := strings.SplitN(n, ".", 2)
					resolved := false
					for _, p := range fn.Params {
						if p.Name() == parts[0] && len(parts) == 2 {
							if pt, ok := p.Type().Underlying().(*types.Pointer); ok {
								ms.names["F:"+heapTypeName(pt.Elem())+"."+parts[1]] = true
								resolved = true
							}
						}
					}
					if !resolved {
						ms.names["F:"+n] = true
					}
				}
			}
			continue
		}
		for _, b := range fn.Blocks {
			for _, in := range b.Instrs {
				switch v := in.(type) {
				case *ssa.Store:
					name, kind := storeTargetName(v.Addr)
					switch kind {
					case "heap":
						ms.names[name] = true
					case "alloc":
						ms.allocs[v.Addr.(*ssa.Alloc)] = true
					case "freevar":
						for i, fv := range fn.FreeVars {
							if fv == v.Addr {
								ms.freeVars[i] = true
							}
						}
					default:
						// store through an arbitrary pointer
						et := v.Addr.Type().Underlying().(*types.Pointer).Elem()
						if _, isStruct := et.Underlying().(*types.Struct); isStruct {
							ms.names["F:"+heapTypeName(et)] = true
						} else {
							ms.all = true
						}
					}
				case *ssa.MapUpdate:
					ms.names["M:"+heapTypeName(v.Map.Type())] = true
				case *ssa.MakeClosure:
					edges[fn] = append(edges[fn], edge{v.Fn.(*ssa.Function), v})
				case ssa.CallInstruction:
					c := v.Common()
					if bi, ok := c.Value.(*ssa.Builtin); ok {
						switch bi.Name() {
						case "copy":
							if sl, ok := c.Args[0].Type().Underlying().(*types.Slice); ok {
								ms.names["E:"+heapTypeName(sl.Elem())] = true
							}
						case "delete":
							ms.names["M:"+heapTypeName(c.Args[0].Type())] = true
						}
						continue
					}
					for _, callee := range w.possibleCallees(c) {
						edges[fn] = append(edges[fn], edge{callee, nil})
					}
					if sc := c.StaticCallee(); sc != nil && !inRepo(sc) {
						if ct, ok := w.Specs.Contracts[externName(sc)]; ok && ct.HasMod {
							for _, n := range ct.Modifies {
								switch {
								case strings.HasPrefix(n, "ghost."):
									ms.names["ghost:"+strings.TrimPrefix(n, "ghost.")] = true
								case len(n) > 2 && n[1] == ':':
									ms.names[n] = true
								}
							}
						}
					}
					if ct := w.ifaceContract(c); ct != nil && ct.HasMod {
						for _, n := range ct.Modifies {
							if strings.HasPrefix(n, "ghost.") {
								ms.names["ghost:"+strings.TrimPrefix(n, "ghost.")] = true
							}
						}
					}
					// external callees may write into slices/pointers passed
					hasExtContract := false
					if sc := c.StaticCallee(); sc != nil && !inRepo(sc) {
						if ct, ok := w.Specs.Contracts[externName(sc)]; ok {
							hasExtContract = true
							for _, n := range ct.Modifies {
								if strings.HasPrefix(n, "contents(") {
									ms.names[contentsHeapNameExt(n, ct, c)] = true
								} else if !strings.HasPrefix(n, "ghost.") && !(len(n) > 2 && n[1] == ':') && n != "*" {
									ms.names["F:"+n] = true
								}
							}
						}
					}
					if ct := w.ifaceContract(c); ct != nil {
						{
							hasExtContract = true
							for _, n := range ct.Modifies {
								if strings.HasPrefix(n, "contents(") {
									ms.names["E:"] = true
								} else if !strings.HasPrefix(n, "ghost.") && !(len(n) > 2 && n[1] == ':') && n != "*" {
									ms.names["F:"+n] = true
								}
							}
						}
					}
					if sc := c.StaticCallee(); sc != nil && !inRepo(sc) {
						if ct, ok := w.Specs.Contracts[externName(sc)]; ok {
							for _, n := range ct.Modifies {
								if strings.HasPrefix(n, "deref(") {
									hasExtContract = false // writes through a pointer argument: treat the arguments generically
								}
							}
						}
					}
					if sc := c.StaticCallee(); (sc == nil || !inRepo(sc)) && !hasExtContract {
						for _, a := range c.Args {
							switch u := a.Type().Underlying().(type) {
							case *types.Slice:
								ms.names["E:"+heapTypeName(u.Elem())] = true
							case *types.Pointer:
								switch pu := u.Elem().Underlying().(type) {
								case *types.Struct:
									if !isExternalType(u.Elem()) {
										ms.names["F:"+heapTypeName(u.Elem())] = true
									}
								case *types.Array:
									ms.names["E:"+heapTypeName(pu.Elem())] = true
								default:
									if al, ok := a.(*ssa.Alloc); ok {
										ms.allocs[al] = true
									}
								}
							case *types.Interface:
								if mi, ok := a.(*ssa.MakeInterface); ok {
									if al, ok := mi.X.(*ssa.Alloc); ok {
										ms.allocs[al] = true
									}
									if sl, ok := mi.X.Type().Underlying().(*types.Slice); ok {
										ms.names["E:"+heapTypeName(sl.Elem())] = true
									}
								}
							}
						}
						if sc == nil || !inRepo(sc) {
							ms.names["F:rsyncwire.CountingReader.BytesRead"] = true
							ms.names["F:rsyncwire.CountingWriter.BytesWritten"] = true
						}
					}
				}
			}
		}
	}
	for changed := true; changed; {
		changed = false
		for _, fn := range fns {
			if ct := w.ContractFor(fn); ct != nil && ct.HasMod && !contains(ct.Modifies, "*") {
				continue
			}
			ms := w.modsets[fn]
			for _, e := range edges[fn] {
				cms, ok := w.modsets[e.callee]
				if !ok {
					continue
				}
				if ms.union(cms, e.closure) {
					changed = true
				}
			}
		}
	}
}

// possibleCallees: static callee, or all in-repo candidates for dynamic calls.
func (w *World) possibleCallees(c *ssa.CallCommon) []*ssa.Function {
	if sc := c.StaticCallee(); sc != nil {
		if inRepo(sc) {
			return []*ssa.Function{sc}
		}
		return nil
	}
	var out []*ssa.Function
	if c.IsInvoke() {
		for _, fn := range w.Funcs {
			if fn.Signature.Recv() != nil && fn.Name() == c.Method.Name() {
				if types.Identical(stripRecv(fn.Signature), stripRecv(c.Method.Type().(*types.Signature))) {
					out = append(out, fn)
				}
			}
		}
		return out
	}
	sig, ok := c.Value.Type().Underlying().(*types.Signature)
	if !ok {
		return nil
	}
	for _, fn := range w.Funcs {
		if types.Identical(stripRecv(fn.Signature), stripRecv(sig)) {
			out = append(out, fn)
		}
	}
	return out
}

func stripRecv(s *types.Signature) *types.Signature {
	return types.NewSignatureType(nil, nil, nil, s.Params(), s.Results(), s.Variadic())
}

func (w *World) dynModSet(c *ssa.CallCommon) *ModSet {
	w.computeModSets()
	ms := newModSet()
	for _, fn := range w.possibleCallees(c) {
		if o, ok := w.modsets[fn]; ok {
			ms.union(o, nil)
			// free variable writes of unknown closures: cells may change
			if len(o.freeVars) > 0 {
				ms.freeVars[-1] = true
			}
		}
	}
	return ms
}

// applyModSet havocs what a mod-set describes in the current frame.
func (fr *Frame) applyModSet(ms *ModSet, st *State, args []Value) {
	x := fr.x
	if ms.all {
		// everything reachable through escaped pointers ...
		x.havocAll(st)
		for _, id := range sortedCellIDs(st.cells) {
			if x.cellEscaped[id] {
				st.cells[id] = x.freshValue(st.cells[id].T, "cell")
			}
		}
	}
	// ... plus the fields the callee's code names
	var names []string
	for n := range ms.names {
		names = append(names, n)
	}
	sort.Strings(names)
	if len(names) > 0 {
		x.havocNames(st, names)
	}
	for a := range ms.allocs {
		if pv, ok := fr.vals[a]; ok {
			l := x.locOf(pv.One(), a.Type().(*types.Pointer).Elem())
			if l.Kind == LCell {
				if old, ok := st.cells[l.Cell]; ok {
					st.cells[l.Cell] = x.freshValue(old.T, "modcell")
				}
			}
		}
	}
	if ms.freeVars[-1] {
		for _, id := range sortedCellIDs(st.cells) {
			if x.cellEscaped[id] {
				st.cells[id] = x.freshValue(st.cells[id].T, "cell")
			}
		}
	}
}

// atSetGhostsIn: the ghosts assigned by "at <callee>: set ghost.g = e" clauses of the root
// contract whose call site lies inside the loop (they belong to the loop's frame).
func (fr *Frame) atSetGhostsIn(lp *Loop) []string {
	if !fr.isRoot || fr.contract == nil {
		return nil
	}
	var out []string
	for _, cl := range fr.contract.AtCalls {
		if cl.Handle == "" || !fr.x.active(cl) {
			continue
		}
		hit := false
		for b := range lp.Blocks {
			for _, in := range b.Instrs {
				ci, ok := in.(ssa.CallInstruction)
				if !ok {
					continue
				}
				c := ci.Common()
				var names []string
				if sc := c.StaticCallee(); sc != nil {
					names = append(names, shortFuncName(sc), externName(sc))
				}
				if c.IsInvoke() {
					names = append(names, "("+types.TypeString(types.Unalias(c.Value.Type()), nil)+")."+c.Method.Name())
					names = append(names, "("+shortTypeKey(types.Unalias(c.Value.Type()))+")."+c.Method.Name())
				}
				if contains(names, cl.Names[0]) {
					hit = true
				}
			}
		}
		if hit {
			out = append(out, "ghost:"+cl.Handle)
		}
	}
	sort.Strings(out)
	return out
}

func (fr *Frame) loopModSet(lp *Loop, st *State) *modSet {
	out := fr.loopModSet0(lp, st)
	for _, g := range fr.atSetGhostsIn(lp) {
		out.names[g] = true
	}
	return out
}

func (fr *Frame) loopModSet0(lp *Loop, st *State) *modSet {
	x := fr.x
	out := &modSet{names: map[string]bool{}, cells: map[int]bool{}}
	if fr.contract != nil {
		if names, ok := fr.contract.LoopMod[lp.Ordinal]; ok {
			for _, n := range names {
				switch {
				case n == "*":
					out.all = true
				case n == "nothing":
				case strings.HasPrefix(n, "ghost."):
					out.names["ghost:"+strings.TrimPrefix(n, "ghost.")] = true
				case len(n) > 2 && n[1] == ':':
					out.names[n] = true
				default:
					// a local variable name (cell) or Type.field
					found := false
					for _, a := range fr.allocs[n] {
						if pv, ok := fr.vals[a]; ok {
							l := x.locOf(pv.One(), a.Type().(*types.Pointer).Elem())
							if l.Kind == LCell {
								out.cells[l.Cell] = true
								found = true
							}
						}
					}
					if !found {
						out.names["F:"+n] = true
					}
				}
			}
			return out
		}
	}
	cellOf := func(a *ssa.Alloc) {
		if pv, ok := fr.vals[a]; ok {
			l := x.locOf(pv.One(), a.Type().(*types.Pointer).Elem())
			if l.Kind == LCell {
				out.cells[l.Cell] = true
			}
		}
	}
	addMS := func(ms *ModSet, cl *ssa.MakeClosure) {
		if ms.all {
			out.all = true
		}
		for n := range ms.names {
			out.names[n] = true
		}
		for a := range ms.allocs {
			cellOf(a)
		}
		if len(ms.freeVars) > 0 {
			// writes through free variables of a closure: map to the bound cells
			var binds []ssa.Value
			if cl != nil {
				binds = cl.Bindings
			}
			for i := range ms.freeVars {
				if i >= 0 && i < len(binds) {
					if a, ok := binds[i].(*ssa.Alloc); ok {
						cellOf(a)
					}
					if fv, ok := binds[i].(*ssa.FreeVar); ok {
						fr.freeVarCell(fv, out)
					}
				} else {
					for id := range st.cells {
						if x.cellEscaped[id] {
							out.cells[id] = true
						}
					}
				}
			}
		}
	}
	var blocks []*ssa.BasicBlock
	for b := range lp.Blocks {
		blocks = append(blocks, b)
	}
	sort.Slice(blocks, func(i, j int) bool { return blocks[i].Index < blocks[j].Index })
	for _, b := range blocks {
		for _, in := range b.Instrs {
			switch v := in.(type) {
			case *ssa.Store:
				name, kind := storeTargetName(v.Addr)
				switch kind {
				case "heap":
					out.names[name] = true
				case "alloc":
					cellOf(v.Addr.(*ssa.Alloc))
				case "freevar":
					fr.freeVarCell(v.Addr.(*ssa.FreeVar), out)
				default:
					et := v.Addr.Type().Underlying().(*types.Pointer).Elem()
					if _, isStruct := et.Underlying().(*types.Struct); isStruct {
						out.names["F:"+heapTypeName(et)] = true
					} else {
						out.all = true
					}
				}
			case *ssa.MapUpdate:
				out.names["M:"+heapTypeName(v.Map.Type())] = true
			case ssa.CallInstruction:
				c := v.Common()
				if bi, ok := c.Value.(*ssa.Builtin); ok {
					switch bi.Name() {
					case "copy":
						if sl, ok := c.Args[0].Type().Underlying().(*types.Slice); ok {
							out.names["E:"+heapTypeName(sl.Elem())] = true
						}
					case "delete":
						out.names["M:"+heapTypeName(c.Args[0].Type())] = true
					case "append":
						if sl, ok := c.Args[0].Type().Underlying().(*types.Slice); ok {
							out.names["E:"+heapTypeName(sl.Elem())] = true
						}
					}
					continue
				}
				var cl *ssa.MakeClosure
				if mc, ok := c.Value.(*ssa.MakeClosure); ok {
					cl = mc
				}
				sc := c.StaticCallee()
				if sc != nil && inRepo(sc) {
					addMS(x.W.fnModSet(sc), cl)
				} else if sc != nil {
					// external with contract?
					if ct, ok := x.W.Specs.Contracts[externName(sc)]; ok {
						for _, n := range ct.Modifies {
							switch {
							case n == "*":
								out.all = true
							case strings.HasPrefix(n, "ghost."):
								out.names["ghost:"+strings.TrimPrefix(n, "ghost.")] = true
							case len(n) > 2 && n[1] == ':':
								out.names[n] = true
							case strings.HasPrefix(n, "contents("):
								out.names["E:"] = true
							case strings.HasPrefix(n, "deref("):
								fr.externArgMods(c, out)
							}
						}
					} else {
						fr.externArgMods(c, out)
					}
					for _, a := range c.Args {
						if mc, ok := a.(*ssa.MakeClosure); ok {
							addMS(x.W.fnModSet(mc.Fn.(*ssa.Function)), mc)
						}
					}
				} else {
					addMS(x.W.dynModSet(c), nil)
					if ct := x.W.ifaceContract(c); ct != nil {
						// the interface method's contract says what a call may change
						for _, n := range ct.Modifies {
							switch {
							case n == "*":
								out.all = true
							case strings.HasPrefix(n, "ghost."):
								out.names["ghost:"+strings.TrimPrefix(n, "ghost.")] = true
							case len(n) > 2 && n[1] == ':':
								out.names[n] = true
							case strings.HasPrefix(n, "contents("):
								out.names[contentsHeapNameExt(n, ct, c)] = true
							case n != "nothing":
								out.names["F:"+n] = true
							}
						}
						if !ct.HasMod && !ct.Pure {
							fr.externArgMods(c, out)
						}
					} else {
						fr.externArgMods(c, out)
					}
				}
			}
		}
	}
	return out
}

func (fr *Frame) externArgMods(c *ssa.CallCommon, out *modSet) {
	x := fr.x
	out.names["F:rsyncwire.CountingReader.BytesRead"] = true
	out.names["F:rsyncwire.CountingWriter.BytesWritten"] = true
	for _, a := range c.Args {
		switch u := a.Type().Underlying().(type) {
		case *types.Slice:
			out.names["E:"+heapTypeName(u.Elem())] = true
		case *types.Pointer:
			switch pu := u.Elem().Underlying().(type) {
			case *types.Struct:
				if !isExternalType(u.Elem()) {
					out.names["F:"+heapTypeName(u.Elem())] = true
				}
			case *types.Array:
				out.names["E:"+heapTypeName(pu.Elem())] = true
			default:
				if al, ok := a.(*ssa.Alloc); ok {
					if pv, ok := fr.vals[al]; ok {
						l := x.locOf(pv.One(), al.Type().(*types.Pointer).Elem())
						if l.Kind == LCell {
							out.cells[l.Cell] = true
						}
					}
				}
			}
		case *types.Interface:
			if mi, ok := a.(*ssa.MakeInterface); ok {
				if al, ok := mi.X.(*ssa.Alloc); ok {
					if pv, ok := fr.vals[al]; ok {
						l := x.locOf(pv.One(), al.Type().(*types.Pointer).Elem())
						if l.Kind == LCell {
							out.cells[l.Cell] = true
						}
					}
				}
				if sl, ok := mi.X.Type().Underlying().(*types.Slice); ok {
					out.names["E:"+heapTypeName(sl.Elem())] = true
				}
			}
		}
	}
}

func (fr *Frame) freeVarCell(fv *ssa.FreeVar, out *modSet) {
	x := fr.x
	for i, f := range fr.fn.FreeVars {
		if f == fv && i < len(fr.bind) {
			if p, ok := fv.Type().Underlying().(*types.Pointer); ok {
				l := x.locOf(fr.bind[i].One(), p.Elem())
				if l.Kind == LCell {
					out.cells[l.Cell] = true
				}
			}
		}
	}
}

// permuteSlice models an in-place permutation of a slice (sort.Slice): every
// new element equals some old element of the same slice.
func (fr *Frame) permuteSlice(a Value, pc *Term, st *State) {
	x := fr.x
	B := x.B
	sv := a
	if _, ok := a.T.Underlying().(*types.Interface); ok {
		bv, found := x.boxed[a.L[1]]
		if !found {
			x.warn("permutes: slice hidden behind an interface; whole E: heap of unknown type left untouched")
			return
		}
		sv = bv
	}
	sl, ok := sv.T.Underlying().(*types.Slice)
	if !ok {
		return
	}
	n := x.nextBound()
	perm := B.DeclFunc(fmt.Sprintf("perm$%d", n), []*Sort{IntSort}, IntSort)
	j := B.BoundVar(fmt.Sprintf("pj$%d", n), IntSort)
	base, off, ln := sv.L[0], sv.L[1], sv.L[2]
	inRange := B.And(B.Le(B.Int(0), j), B.Lt(j, ln))
	pj := B.App(perm, j)
	x.assume(pc, B.Forall([]*Term{j}, B.Implies(inRange, B.And(B.Le(B.Int(0), pj), B.Lt(pj, ln)))), "permutation stays in range")
	for _, lf := range LayoutOf(sl.Elem()).Leaves {
		if lf.Role == "array" || lf.Role == "opaque" {
			continue
		}
		hn := "E:" + heapTypeName(sl.Elem()) + lf.Path
		srt := ArraySort(IntSort, ArraySort(IntSort, lf.Sort))
		h := x.heapRead(st, hn, srt)
		oldArr := B.Select(h, base)
		newArr := B.Fresh("permarr", ArraySort(IntSort, lf.Sort))
		x.assume(pc, B.Forall([]*Term{j}, B.Implies(inRange,
			B.Eq(B.Select(newArr, B.Add(off, j)), B.Select(oldArr, B.Add(off, pj))))), "permutation of elements")
		x.heapSet(st, hn, B.Store(h, base, newArr))
	}
}

// contentsHeapName maps "contents(p)" to the E: heap of p's element type
// when p is a slice-typed parameter, else to the whole E: space.
func contentsHeapName(n string, fn *ssa.Function) string {
	arg := strings.TrimSuffix(strings.TrimPrefix(n, "contents("), ")")
	if fn != nil {
		for _, p := range fn.Params {
			if p.Name() == arg {
				if sl, ok := p.Type().Underlying().(*types.Slice); ok {
					return "E:" + heapTypeName(sl.Elem())
				}
			}
		}
	}
	return "E:"
}

func (x *X) recordEvent(pc *Term, name string, vals []Value, args []Value) {
	if !strings.Contains(name, "Read") && !strings.Contains(name, "Lstat") && !strings.Contains(name, "Stat") {
		return
	}
	ev := callEvent{Guard: pc, Name: name}
	for _, v := range vals {
		ev.Vals = append(ev.Vals, v.L...)
	}
	for _, a := range args {
		if _, ok := a.T.Underlying().(*types.Slice); ok {
			ev.Lens = append(ev.Lens, a.L[2])
		}
	}
	x.events = append(x.events, ev)
}

// atCallAsserts checks "at <callee>: assert e" clauses of the function under
// analysis (root frame only) right before the call.
func (fr *Frame) atCallAsserts(c *ssa.CallCommon, callee *ssa.Function, args []Value, pc *Term, st *State, pos string) {
	x := fr.x
	if !fr.isRoot || fr.contract == nil || !x.mode.Functional || len(fr.contract.AtCalls) == 0 {
		return
	}
	var names []string
	if callee != nil {
		names = append(names, shortFuncName(callee), externName(callee))
	}
	if c.IsInvoke() {
		names = append(names, "("+types.TypeString(types.Unalias(c.Value.Type()), nil)+")."+c.Method.Name())
		names = append(names, "("+shortTypeKey(types.Unalias(c.Value.Type()))+")."+c.Method.Name())
	}
	for _, cl := range fr.contract.AtCalls {
		if !x.active(cl) || !contains(names, cl.Names[0]) {
			continue
		}
		if cl.Loop != 0 && cl.Loop != fr.callSiteOrdinal(cl.Names[0], c) {
			continue
		}
		if x.atHits == nil {
			x.atHits = map[*Clause]int{}
		}
		x.atHits[cl]++
		env := fr.rootEnv(st)
		env.lookup = func(name string) (SV, bool) { return fr.resolveLocalAt(name, st) }
		for i, a := range args {
			env.vars[fmt.Sprintf("arg%d", i)] = svValue(a)
		}
		if cl.Handle != "" {
			// ghost assignment: a scalar ghost of this function's contract file takes the value
			// of the expression here (inside a loop the ghost is part of the loop's frame, see loopModSet)
			g, ok := x.W.Specs.Ghosts[cl.Handle]
			if !ok {
				panic(stopExec{fmt.Sprintf("at %s: set: unknown ghost %q", cl.Names[0], cl.Handle)})
			}
			var v *Term
			if err := safeEval(func() { v = env.term(env.eval(cl.Expr)) }); err != nil {
				x.noteStale(fmt.Sprintf("%s: at %s: set %q: %v", shortFuncName(fr.fn), cl.Names[0], cl.Src, err))
				continue
			}
			if v.Sort != env.sortByName(g.Sort) {
				panic(stopExec{fmt.Sprintf("at %s: set ghost.%s: sort mismatch", cl.Names[0], cl.Handle)})
			}
			x.heapSet(st, "ghost:"+cl.Handle, v)
			continue
		}
		var t *Term
		if err := safeEval(func() { t = env.Bool(cl.Expr) }); err != nil {
			x.noteStale(fmt.Sprintf("%s: at %s: assert %q: %v", shortFuncName(fr.fn), cl.Names[0], cl.Src, err))
			continue
		}
		lbl := cl.Label
		if lbl == "" {
			lbl = truncate(cl.Src, 40)
		}
		o := x.oblige("assert", shortName(cl.Names[0])+":"+lbl, pos, pc, t)
		o.Extra = map[string]string{"assert": cl.Src}
		// assert-then-assume: once obliged, the fact is available to what follows (a proof step)
		x.assume(pc, t, "asserted at call of "+cl.Names[0]+": "+cl.Src)
	}
}

// resolveLocalAt: value of a source variable at the current block: the
// latest DebugRef whose block dominates the current one (or is the current
// block and already executed), or an address-taken local.
func (fr *Frame) resolveLocalAt(name string, st *State) (SV, bool) {
	x := fr.x
	if as := fr.allocs[name]; len(as) > 0 {
		for _, a := range as {
			if pv, ok := fr.vals[a]; ok {
				l := x.locOf(pv.One(), a.Type().(*types.Pointer).Elem())
				if l.Kind == LCell {
					if v, ok := st.cells[l.Cell]; ok {
						return svValue(v), true
					}
				} else {
					return svValue(x.load(st, l, a.Type().(*types.Pointer).Elem())), true
				}
			}
		}
	}
	var best *dbgRef
	for i := range fr.dbg[name] {
		d := &fr.dbg[name][i]
		if _, ok := fr.vals[d.instr.X]; !ok {
			if _, isConst := d.instr.X.(*ssa.Const); !isConst {
				continue
			}
		}
		if fr.curBlock != nil && d.block != fr.curBlock && !d.block.Dominates(fr.curBlock) {
			continue
		}
		if best == nil || best.block.Dominates(d.block) {
			best = d
		}
	}
	// a phi named after the variable in a block that dominates the current one
	// is a later definition than any DebugRef in a block dominating the phi's
	var bestPhi *ssa.Phi
	if fr.curBlock != nil {
		for _, b := range fr.fn.Blocks {
			if b != fr.curBlock && !b.Dominates(fr.curBlock) {
				continue
			}
			for _, in := range b.Instrs {
				phi, ok := in.(*ssa.Phi)
				if !ok {
					break
				}
				if phi.Comment != name {
					continue
				}
				if _, ok := fr.vals[phi]; !ok {
					continue
				}
				if bestPhi == nil || bestPhi.Block().Dominates(b) {
					bestPhi = phi
				}
			}
		}
	}
	if bestPhi != nil && (best == nil || (best.block != bestPhi.Block() && best.block.Dominates(bestPhi.Block()))) {
		return svValue(fr.vals[bestPhi]), true
	}
	if best != nil {
		return svValue(fr.val(best.instr.X)), true
	}
	return SV{}, false
}

// havocGhostOf forgets the array-shaped ghost state at the object a denotes
// (pointer value, or the data word of an interface).
func (x *X) havocGhostOf(st *State, a Value) {
	var key *Term
	switch a.T.Underlying().(type) {
	case *types.Pointer:
		key = a.L[0]
	case *types.Interface:
		key = a.L[1]
	default:
		return
	}
	var gnames []string
	for name := range x.W.Specs.Ghosts {
		gnames = append(gnames, name)
	}
	sort.Strings(gnames)
	for _, name := range gnames {
		g := x.W.Specs.Ghosts[name]
		if g.Sort != "ObjIntArray" && g.Sort != "ObjSet" {
			continue // only ghost state indexed by object identity
		}
		if g.Init == "owned" {
			continue
		}
		srt := (&Env{x: x}).sortByName(g.Sort)
		cur := x.heapRead(st, "ghost:"+name, srt)
		x.heapSet(st, "ghost:"+name, x.B.Store(cur, key, x.B.Fresh("gh_"+name, srt.V)))
	}
}

// ghostMods: ghost variables a function may change, derived from the bodies
// (extern contracts' modifies clauses), independent of in-repo contracts.
func (w *World) ghostMods(fn *ssa.Function) []string {
	if w.ghostModSets == nil {
		w.ghostModSets = map[*ssa.Function]map[string]bool{}
		edges := map[*ssa.Function][]*ssa.Function{}
		for _, f := range w.Funcs {
			gm := map[string]bool{}
			w.ghostModSets[f] = gm
			for _, b := range f.Blocks {
				for _, in := range b.Instrs {
					if mc, ok := in.(*ssa.MakeClosure); ok {
						edges[f] = append(edges[f], mc.Fn.(*ssa.Function))
					}
					ci, ok := in.(ssa.CallInstruction)
					if !ok {
						continue
					}
					c := ci.Common()
					var ct *Contract
					if sc := c.StaticCallee(); sc != nil && !inRepo(sc) {
						ct = w.Specs.Contracts[externName(sc)]
					} else if c.IsInvoke() {
						ct = w.ifaceContract(c)
					}
					if ct != nil {
						for _, n := range ct.Modifies {
							if strings.HasPrefix(n, "ghost.") {
								gm["ghost:"+strings.TrimPrefix(n, "ghost.")] = true
							}
						}
						if len(ct.Touches) > 0 {
							for g, gv := range w.Specs.Ghosts {
								if (gv.Sort == "ObjIntArray" || gv.Sort == "ObjSet") && gv.Init != "owned" {
									gm["ghost:"+g] = true
								}
							}
						}
					}
					for _, callee := range w.possibleCallees(c) {
						edges[f] = append(edges[f], callee)
					}
				}
			}
		}
		for changed := true; changed; {
			changed = false
			for f, cs := range edges {
				for _, c := range cs {
					for n := range w.ghostModSets[c] {
						if !w.ghostModSets[f][n] {
							w.ghostModSets[f][n] = true
							changed = true
						}
					}
				}
			}
		}
	}
	var out []string
	for n := range w.ghostModSets[fn] {
		out = append(out, n)
	}
	sort.Strings(out)
	return out
}

// contentsHeapNameExt resolves contents(p) of an extern contract against the
// actual argument types of a call.
func contentsHeapNameExt(n string, ct *Contract, c *ssa.CallCommon) string {
	arg := strings.TrimSuffix(strings.TrimPrefix(n, "contents("), ")")
	for i, p := range ct.Params {
		if p != arg {
			continue
		}
		k := i
		if c.IsInvoke() {
			k = i - 1
		}
		if k >= 0 && k < len(c.Args) {
			if sl, ok := c.Args[k].Type().Underlying().(*types.Slice); ok {
				return "E:" + heapTypeName(sl.Elem())
			}
		}
	}
	return "E:"
}

// callSiteOrdinal: position (from 1) of call c among the calls of the named
// callee in this function, in source order.
func (fr *Frame) callSiteOrdinal(name string, c *ssa.CallCommon) int {
	var poss []token.Pos
	for _, b := range fr.fn.Blocks {
		for _, in := range b.Instrs {
			ci, ok := in.(ssa.CallInstruction)
			if !ok {
				continue
			}
			cc := ci.Common()
			var ns []string
			if sc := cc.StaticCallee(); sc != nil {
				ns = append(ns, shortFuncName(sc), externName(sc))
			}
			if cc.IsInvoke() {
				ns = append(ns, "("+types.TypeString(types.Unalias(cc.Value.Type()), nil)+")."+cc.Method.Name())
				ns = append(ns, "("+shortTypeKey(types.Unalias(cc.Value.Type()))+")."+cc.Method.Name())
			}
			if contains(ns, name) {
				poss = append(poss, cc.Pos())
			}
		}
	}
	sort.Slice(poss, func(i, j int) bool { return poss[i] < poss[j] })
	for i, p := range poss {
		if p == c.Pos() {
			return i + 1
		}
	}
	return 0
}

// ifaceContract returns the contract attached to the interface method an
// invoke-mode call names (full or short type name), or nil.
func (w *World) ifaceContract(c *ssa.CallCommon) *Contract {
	if !c.IsInvoke() {
		return nil
	}
	recvT := types.Unalias(c.Value.Type())
	if ct, ok := w.Specs.Contracts["("+types.TypeString(recvT, nil)+")."+c.Method.Name()]; ok {
		return ct
	}
	if ct, ok := w.Specs.Contracts["("+shortTypeKey(recvT)+")."+c.Method.Name()]; ok {
		return ct
	}
	return nil
}
