package main

// Evaluation of contract expressions to SMT terms in a given state.

import (
	"fmt"
	"go/types"
	"math/big"
	"strings"

	"golang.org/x/tools/go/ssa"
)

// SV is a spec-level value: either a Go-typed flattened value or a pure term.
type Lambda struct {
	Params []*Term // fresh constants standing for the arguments
	Result *Term
}

type SV struct {
	Lam  *Lambda
	V    *Value // Go-typed
	T    *Term  // pure term (Int/Bool/Str/array...)
	Nil  bool
	Type types.Type // set when V != nil
}

func svTerm(t *Term) SV    { return SV{T: t} }
func svValue(v Value) SV   { return SV{V: &v, Type: v.T} }

type Env struct {
	x      *X
	st     *State            // current state
	old    *State            // state for old(...)
	vars   map[string]SV     // parameters, results, bound variables
	lookup func(name string) (SV, bool) // fallback resolver (locals)
	fr     *Frame
	pkg    *types.Package
	recSym map[string]string // recursive spec functions being defined -> their UF symbol
}

type evalErr struct{ msg string }

func (e *Env) fail(format string, args ...interface{}) {
	panic(evalErr{fmt.Sprintf(format, args...)})
}

func (e *Env) sortByName(s string) *Sort {
	switch s {
	case "int", "Int", "ref":
		return IntSort
	case "bool", "Bool":
		return BoolSort
	case "Str", "string", "str":
		return StrSort
	case "F64":
		return F64Sort
	case "bytes", "IntArray", "ObjIntArray":
		return ArraySort(IntSort, IntSort)
	case "ObjSet":
		return ArraySort(IntSort, BoolSort)
	case "StrSet":
		return ArraySort(StrSort, BoolSort)
	case "IntSet":
		return ArraySort(IntSort, BoolSort)
	case "StrArray":
		return ArraySort(IntSort, StrSort)
	}
	e.fail("unknown sort %q", s)
	return nil
}

// Bool evaluates n as a formula.
func (e *Env) Bool(n *SNode) *Term {
	sv := e.eval(n)
	t := e.term(sv)
	if t.Sort != BoolSort {
		e.fail("expected a boolean expression: %s", n)
	}
	return t
}

func (e *Env) term(sv SV) *Term {
	if sv.T != nil {
		return sv.T
	}
	if sv.V != nil {
		if len(sv.V.L) == 1 {
			return sv.V.L[0]
		}
		e.fail("aggregate value of type %s used as a scalar", sv.V.T)
	}
	if sv.Nil {
		return e.x.B.Int(0)
	}
	e.fail("empty spec value")
	return nil
}

func (e *Env) eval(n *SNode) SV {
	x := e.x
	B := x.B
	switch n.Kind {
	case "true":
		return svTerm(B.True())
	case "false":
		return svTerm(B.False())
	case "nil":
		return SV{Nil: true}
	case "num":
		bi, ok := new(big.Int).SetString(n.Name, 0)
		if !ok {
			e.fail("bad number %q", n.Name)
		}
		return svTerm(B.BigInt(bi))
	case "str":
		return svTerm(x.strLit(n.Name))
	case "ident":
		if sv, ok := e.vars[n.Name]; ok {
			return sv
		}
		if e.lookup != nil {
			if sv, ok := e.lookup(n.Name); ok {
				return sv
			}
		}
		if n.Name == "ghost" {
			return SV{}
		}
		if c, ok := e.constByName(n.Name); ok {
			return c
		}
		if sf, ok := x.W.Specs.Funcs[n.Name]; ok && len(sf.Params) == 0 {
			return e.callSpec(sf, nil)
		}
		e.fail("unknown identifier %q", n.Name)
	case "old":
		if e.old == nil {
			e.fail("old() not available here")
		}
		ne := *e
		ne.st = e.old
		return ne.eval(n.Args[0])
	case "un":
		a := e.term(e.eval(n.Args[0]))
		if n.Op == "!" {
			return svTerm(B.Not(a))
		}
		return svTerm(B.Neg(a))
	case "quant":
		ne := *e
		ne.vars = map[string]SV{}
		for k, v := range e.vars {
			ne.vars[k] = v
		}
		var bound []*Term
		for i, v := range n.Vars {
			bv := B.BoundVar(fmt.Sprintf("%s$%d", v, x.nextBound()), e.sortByName(n.Sorts[i]))
			bound = append(bound, bv)
			ne.vars[v] = svTerm(bv)
		}
		body := ne.Bool(n.Args[0])
		if n.Op == "forall" {
			return svTerm(B.Forall(bound, body))
		}
		return svTerm(B.Exists(bound, body))
	case "bin":
		return e.binary(n)
	case "sel":
		return e.selector(n)
	case "idx":
		return e.index(n)
	case "slice":
		return e.sliceExpr(n)
	case "call":
		return e.call(n)
	}
	e.fail("cannot evaluate %s", n)
	return SV{}
}

func (x *X) nextBound() int { x.boundCtr++; return x.boundCtr }

func (e *Env) constByName(name string) (SV, bool) {
	// package-level constants of the function's package (and a few others)
	tryPkg := func(p *types.Package) (SV, bool) {
		if p == nil {
			return SV{}, false
		}
		if obj, ok := p.Scope().Lookup(name).(*types.Const); ok {
			if bi, ok2 := new(big.Int).SetString(obj.Val().ExactString(), 10); ok2 {
				return svTerm(e.x.B.BigInt(bi)), true
			}
		}
		return SV{}, false
	}
	if sv, ok := tryPkg(e.pkg); ok {
		return sv, true
	}
	if e.pkg != nil {
		for _, imp := range e.pkg.Imports() {
			if strings.HasPrefix(imp.Path(), repoMod) {
				if sv, ok := tryPkg(imp); ok {
					return sv, true
				}
			}
		}
	}
	return SV{}, false
}

func (e *Env) binary(n *SNode) SV {
	B := e.x.B
	switch n.Op {
	case "&&":
		return svTerm(B.And(e.Bool(n.Args[0]), e.Bool(n.Args[1])))
	case "||":
		return svTerm(B.Or(e.Bool(n.Args[0]), e.Bool(n.Args[1])))
	case "==>":
		return svTerm(B.Implies(e.Bool(n.Args[0]), e.Bool(n.Args[1])))
	case "<==>":
		return svTerm(B.Eq(e.Bool(n.Args[0]), e.Bool(n.Args[1])))
	case "==", "!=":
		l, r := e.eval(n.Args[0]), e.eval(n.Args[1])
		eq := e.equal(l, r)
		if n.Op == "!=" {
			eq = B.Not(eq)
		}
		return svTerm(eq)
	}
	l, r := e.term(e.eval(n.Args[0])), e.term(e.eval(n.Args[1]))
	switch n.Op {
	case "<":
		return svTerm(B.Lt(l, r))
	case "<=":
		return svTerm(B.Le(l, r))
	case ">":
		return svTerm(B.Gt(l, r))
	case ">=":
		return svTerm(B.Ge(l, r))
	case "+":
		if l.Sort == StrSort {
			return svTerm(e.x.strConcat(l, r))
		}
		return svTerm(B.Add(l, r))
	case "-":
		return svTerm(B.Sub(l, r))
	case "*":
		return svTerm(B.Mul(l, r))
	case "/":
		q, _ := e.x.truncDivMod(l, r)
		return svTerm(q)
	case "%":
		_, m := e.x.truncDivMod(l, r)
		return svTerm(m)
	case "&":
		return svTerm(e.x.bitAnd(l, r, 64, true))
	case "|":
		return svTerm(B.Sub(B.Add(l, r), e.x.bitAnd(l, r, 64, true)))
	}
	e.fail("unsupported operator %s", n.Op)
	return SV{}
}

func (e *Env) equal(l, r SV) *Term {
	B := e.x.B
	if l.Nil && r.Nil {
		return B.True()
	}
	if r.Nil {
		l, r = r, l
	}
	if l.Nil {
		if r.V != nil {
			switch r.V.T.Underlying().(type) {
			case *types.Interface, *types.Slice:
				return B.Eq(r.V.L[0], B.Int(0))
			}
		}
		return B.Eq(e.term(r), B.Int(0))
	}
	if l.V != nil && r.V != nil && (len(l.V.L) > 1 || len(r.V.L) > 1) {
		return e.x.valuesEqual(*l.V, *r.V, l.V.T, r.V.T)
	}
	lt, rt := e.term(l), e.term(r)
	if lt.Sort != rt.Sort {
		e.fail("comparison of different sorts %s and %s", lt.Sort, rt.Sort)
	}
	return e.x.termEq(lt, rt)
}

func (e *Env) selector(n *SNode) SV {
	x := e.x
	if n.Args[0].Kind == "ident" && n.Args[0].Name == "ghost" {
		g, ok := x.W.Specs.Ghosts[n.Name]
		if !ok {
			e.fail("unknown ghost variable %q", n.Name)
		}
		return svTerm(x.ghostRead(e.st, g, e.sortByName(g.Sort)))
	}
	// qualified constant pkg.Name
	if n.Args[0].Kind == "ident" {
		if _, isVar := e.vars[n.Args[0].Name]; !isVar {
			if e.lookup != nil {
				if _, ok := e.lookup(n.Args[0].Name); ok {
					goto normal
				}
			}
			if sv, ok := e.qualifiedConst(n.Args[0].Name, n.Name); ok {
				return sv
			}
		}
	}
normal:
	base := e.eval(n.Args[0])
	if base.V == nil {
		e.fail("field selection %s on a non-Go value", n)
	}
	v := *base.V
	t := v.T
	// auto-deref pointer
	if p, ok := t.Underlying().(*types.Pointer); ok {
		l := x.locOf(v.One(), p.Elem())
		st, ok := p.Elem().Underlying().(*types.Struct)
		if !ok {
			e.fail("field %s of pointer to non-struct %s", n.Name, p.Elem())
		}
		idx, ft := findField(st, n.Name)
		if idx < 0 {
			e.fail("no field %s in %s", n.Name, p.Elem())
		}
		nl := *l
		if nl.Kind == LBox || nl.Kind == LArr {
			nl = Loc{Kind: LObj, Ref: v.One(), T: p.Elem()}
		}
		nl.Path += "." + n.Name
		return svValue(x.load(e.st, &nl, ft))
	}
	if st, ok := t.Underlying().(*types.Struct); ok {
		idx, _ := findField(st, n.Name)
		if idx < 0 {
			e.fail("no field %s in %s", n.Name, t)
		}
		return svValue(v.Field(idx))
	}
	e.fail("field selection on %s", t)
	return SV{}
}

func (e *Env) qualifiedConst(pkgName, name string) (SV, bool) {
	if e.pkg == nil {
		return SV{}, false
	}
	for _, imp := range append([]*types.Package{e.pkg}, e.pkg.Imports()...) {
		if imp.Name() == pkgName {
			if obj, ok := imp.Scope().Lookup(name).(*types.Const); ok {
				if bi, ok2 := new(big.Int).SetString(obj.Val().ExactString(), 10); ok2 {
					return svTerm(e.x.B.BigInt(bi)), true
				}
			}
		}
	}
	return SV{}, false
}

func findField(st *types.Struct, name string) (int, types.Type) {
	for i := 0; i < st.NumFields(); i++ {
		if st.Field(i).Name() == name {
			return i, st.Field(i).Type()
		}
	}
	return -1, nil
}

func (e *Env) index(n *SNode) SV {
	x := e.x
	B := x.B
	base := e.eval(n.Args[0])
	idx := e.term(e.eval(n.Args[1]))
	if base.T != nil {
		if base.T.Sort.Kind == SArray {
			return svTerm(B.Select(base.T, idx))
		}
		if base.T.Sort == StrSort {
			return svTerm(x.strAt(base.T, idx))
		}
		e.fail("indexing a non-array term")
	}
	v := *base.V
	switch u := v.T.Underlying().(type) {
	case *types.Slice:
		l := &Loc{Kind: LElem, Ref: v.L[0], Idx: B.Index(v.L[1], idx), T: u.Elem()}
		return svValue(x.load(e.st, l, u.Elem()))
	case *types.Array:
		if LayoutOf(v.T).Leaves[0].Role == "array" {
			val := Value{T: u.Elem(), L: []*Term{B.Select(v.One(), idx)}}
			return svValue(val)
		}
	case *types.Basic:
		return svTerm(x.strAt(v.One(), idx))
	case *types.Map:
		name, ks, m := x.mapHeapNames(v.T)
		if ks != nil {
			lay := LayoutOf(m.Elem())
			val := Value{T: m.Elem(), L: make([]*Term, len(lay.Leaves))}
			for i, lf := range lay.Leaves {
				hv := x.heapRead(e.st, name+"#val"+lf.Path, ArraySort(IntSort, ArraySort(ks, lf.Sort)))
				val.L[i] = B.Select(B.Select(hv, v.One()), idx)
			}
			return svValue(val)
		}
	}
	e.fail("cannot index %s", v.T)
	return SV{}
}

func (e *Env) sliceExpr(n *SNode) SV {
	x := e.x
	B := x.B
	base := e.eval(n.Args[0])
	if base.V == nil {
		if base.T != nil && base.T.Sort == StrSort {
			lo := B.Int(0)
			hi := x.strLen(base.T)
			if n.Args[1] != nil {
				lo = e.term(e.eval(n.Args[1]))
			}
			if n.Args[2] != nil {
				hi = e.term(e.eval(n.Args[2]))
			}
			return svTerm(x.subStr(base.T, lo, hi))
		}
		e.fail("slice expression on non-Go value")
	}
	v := *base.V
	sl, ok := v.T.Underlying().(*types.Slice)
	if !ok {
		if bt, ok := v.T.Underlying().(*types.Basic); ok && bt.Info()&types.IsString != 0 {
			lo := B.Int(0)
			hi := x.strLen(v.One())
			if n.Args[1] != nil {
				lo = e.term(e.eval(n.Args[1]))
			}
			if n.Args[2] != nil {
				hi = e.term(e.eval(n.Args[2]))
			}
			return svValue(Value{T: v.T, L: []*Term{x.subStr(v.One(), lo, hi)}})
		}
		e.fail("slice expression on %s", v.T)
	}
	_ = sl
	lo := B.Int(0)
	hi := v.L[2]
	if n.Args[1] != nil {
		lo = e.term(e.eval(n.Args[1]))
	}
	if n.Args[2] != nil {
		hi = e.term(e.eval(n.Args[2]))
	}
	return svValue(Value{T: v.T, L: []*Term{v.L[0], B.Add(v.L[1], lo), B.Sub(hi, lo), B.Sub(v.L[3], lo)}})
}

func (e *Env) call(n *SNode) SV {
	x := e.x
	B := x.B
	argT := func(i int) *Term { return e.term(e.eval(n.Args[i])) }
	switch n.Name {
	case "len":
		a := e.eval(n.Args[0])
		if a.T != nil {
			if a.T.Sort == StrSort {
				return svTerm(x.strLen(a.T))
			}
			e.fail("len of non-string term")
		}
		switch u := a.V.T.Underlying().(type) {
		case *types.Slice:
			return svTerm(a.V.L[2])
		case *types.Basic:
			x.strLenFacts(a.V.One())
			return svTerm(x.strLen(a.V.One()))
		case *types.Array:
			return svTerm(B.Int(u.Len()))
		}
		e.fail("len of %s", a.V.T)
	case "cap":
		a := e.eval(n.Args[0])
		return svTerm(a.V.L[3])
	case "has":
		// has(m, k): key k is present in map m
		a := e.eval(n.Args[0])
		name, ks, _ := x.mapHeapNames(a.V.T)
		if ks == nil {
			e.fail("has() on a map with aggregate keys")
		}
		hh := x.heapRead(e.st, name+"#has", ArraySort(IntSort, ArraySort(ks, BoolSort)))
		return svTerm(B.And(B.Neq(a.V.One(), B.Int(0)), B.Select(B.Select(hh, a.V.One()), argT(1))))
	case "keys", "vals":
		// keys(m): the key set of map m as a value (IntSet); vals(m): its key -> value function
		// (maps with scalar keys and values)
		a := e.eval(n.Args[0])
		name, ks, m := x.mapHeapNames(a.V.T)
		if ks == nil {
			e.fail("%s() on a map with aggregate keys", n.Name)
		}
		if n.Name == "keys" {
			hh := x.heapRead(e.st, name+"#has", ArraySort(IntSort, ArraySort(ks, BoolSort)))
			return svTerm(B.Select(hh, a.V.One()))
		}
		lay := LayoutOf(m.Elem())
		if len(lay.Leaves) != 1 {
			e.fail("vals() on a map with aggregate values")
		}
		hv := x.heapRead(e.st, name+"#val"+lay.Leaves[0].Path, ArraySort(IntSort, ArraySort(ks, lay.Leaves[0].Sort)))
		return svTerm(B.Select(hv, a.V.One()))
	case "ifacelen":
		// length of a slice boxed in an interface value (e.g. sort.Slice's argument)
		a := e.eval(n.Args[0])
		if bv, ok := x.boxed[a.V.L[1]]; ok && len(bv.L) == 4 {
			return svTerm(bv.L[2])
		}
		d := B.DeclFunc("ifacelen", []*Sort{IntSort}, IntSort)
		r := B.App(d, a.V.L[1])
		x.assumeGlobal(B.Le(B.Int(0), r), "len >= 0")
		return svTerm(r)
	case "ite":
		c := e.Bool(n.Args[0])
		l, r := e.eval(n.Args[1]), e.eval(n.Args[2])
		return svTerm(B.Ite(c, e.term(l), e.term(r)))
	case "min":
		a, b := argT(0), argT(1)
		return svTerm(B.Ite(B.Le(a, b), a, b))
	case "max":
		a, b := argT(0), argT(1)
		return svTerm(B.Ite(B.Le(a, b), b, a))
	case "div":
		return svTerm(B.Div(argT(0), argT(1)))
	case "mod":
		return svTerm(B.Mod(argT(0), argT(1)))
	case "int", "int64", "int32", "uint32", "uint16", "byte", "uint64":
		return svTerm(argT(0))
	case "wrap32s":
		return svTerm(x.wrapBits(argT(0), 32, true))
	case "wrap32u":
		return svTerm(x.wrapBits(argT(0), 32, false))
	case "wrap16u":
		return svTerm(x.wrapBits(argT(0), 16, false))
	case "bits32":
		// bits32(x, shift, width): the bit field of the 32-bit two's-complement
		// representation of x, encoded the way the executor encodes x & mask
		sh, wd := argT(1), argT(2)
		if !sh.IsLit() || !wd.IsLit() {
			e.fail("bits32 needs literal shift and width")
		}
		ua := x.toUnsigned(argT(0), 32, true)
		return svTerm(B.Mod(B.Div(ua, B.BigInt(pow2(uint(sh.Val.Int64())))), B.BigInt(pow2(uint(wd.Val.Int64())))))
	case "wrap8u":
		return svTerm(x.wrapBits(argT(0), 8, false))
	case "wrap64s":
		return svTerm(x.wrapBits(argT(0), 64, true))
	case "isnil":
		a := e.eval(n.Args[0])
		return svTerm(e.equal(a, SV{Nil: true}))
	case "tag":
		a := e.eval(n.Args[0])
		return svTerm(a.V.L[0])
	case "data":
		a := e.eval(n.Args[0])
		return svTerm(a.V.L[1])
	case "base":
		a := e.eval(n.Args[0])
		return svTerm(a.V.L[0])
	case "off":
		a := e.eval(n.Args[0])
		return svTerm(a.V.L[1])
	case "contents":
		// contents(s): the backing array (Array Int elem) of slice s
		a := e.eval(n.Args[0])
		sl := a.V.T.Underlying().(*types.Slice)
		lf := LayoutOf(sl.Elem()).Leaves
		if len(lf) != 1 {
			e.fail("contents of slice of aggregates")
		}
		h := x.heapRead(e.st, "E:"+heapTypeName(sl.Elem()), ArraySort(IntSort, ArraySort(IntSort, lf[0].Sort)))
		return svTerm(B.Select(h, a.V.L[0]))
	case "select":
		return svTerm(B.Select(argT(0), argT(1)))
	case "store":
		return svTerm(B.Store(argT(0), argT(1), argT(2)))
	case "typeis":
		// typeis(v, "pkg.Type"): dynamic type test on an interface value
		a := e.eval(n.Args[0])
		name := n.Args[1].Name
		ct, ok := x.W.typeByShortName(name)
		if !ok {
			e.fail("unknown type %q in typeis", name)
		}
		if a.V == nil {
			e.fail("typeis on a non-Go value")
		}
		if it, isIface := a.V.T.Underlying().(*types.Interface); isIface && !types.Implements(ct, it) {
			// the static interface type rules the dynamic type out
			return svTerm(B.False())
		}
		return svTerm(B.Eq(a.V.L[0], x.typeID(ct)))
	case "global":
		// global("pkg.name"): current value of a package-level variable
		gn := n.Args[0].Name
		idx := strings.LastIndex(gn, ".")
		if idx < 0 {
			e.fail("global needs \"pkg.name\"")
		}
		for path, sp := range x.W.SPkgs {
			if shortPkgPath(path) != gn[:idx] {
				continue
			}
			if g, ok := sp.Members[gn[idx+1:]].(*ssa.Global); ok {
				et := g.Type().(*types.Pointer).Elem()
				l := &Loc{Kind: LGlobal, Name: gn, T: et}
				return svValue(x.load(e.st, l, et))
			}
		}
		e.fail("unknown global %q", gn)
	case "asptr":
		// asptr(iface, "*pkg.T"): the interface's data word as a pointer of that type
		a := e.eval(n.Args[0])
		ct, ok := x.W.typeByShortName(n.Args[1].Name)
		if !ok {
			e.fail("unknown type %q in asptr", n.Args[1].Name)
		}
		return svValue(Value{T: ct, L: []*Term{a.V.L[1]}})
	case "typeid":
		id, ok := x.typeIDByShortName(n.Args[0].Name)
		if !ok {
			e.fail("unknown type %q in typeid", n.Args[0].Name)
		}
		return svTerm(id)
	case "isFileSeg":
		// isFileSeg(s, f, p): the byte slice s holds exactly the file range [p, p+len(s)) of f,
		// stated on content ids: bid(s) == fileSeg(f, p, len(s)). The abstraction's defining
		// axiom  (forall k in [0,n): a[o+k] == fbyte(f,p+k)) ==> bytesIdOf(a,o,n) == fileSeg(f,p,n)
		// is instantiated here for this slice in skolemised (quantifier-free) form.
		a := e.eval(n.Args[0])
		if a.V == nil || len(a.V.L) != 4 {
			e.fail("isFileSeg needs a byte slice")
		}
		f, p0 := argT(1), argT(2)
		sl := a.V.T.Underlying().(*types.Slice)
		h := x.heapRead(e.st, "E:"+heapTypeName(sl.Elem()), ArraySort(IntSort, ArraySort(IntSort, IntSort)))
		arr := B.Select(h, a.V.L[0])
		off, ln := a.V.L[1], a.V.L[2]
		bidF := B.DeclFunc("spec$bytesIdOf", []*Sort{ArraySort(IntSort, IntSort), IntSort, IntSort}, IntSort)
		segF := B.DeclFunc("spec$fileSeg", []*Sort{IntSort, IntSort, IntSort}, IntSort)
		fbF := B.DeclFunc("spec$fbyte", []*Sort{IntSort, IntSort}, IntSort)
		eq := B.Eq(B.App(bidF, arr, off, ln), B.App(segF, f, p0, ln))
		if !B.hasBoundVar(eq) && !x.typed[-17*eq.id-11] {
			x.typed[-17*eq.id-11] = true
			sk := B.Fresh("segwit", IntSort)
			differs := B.And(B.Le(B.Int(0), sk), B.Lt(sk, ln), B.Neq(B.Select(arr, B.Add(off, sk)), B.App(fbF, f, B.Add(p0, sk))))
			x.assumeGlobal(B.Or(differs, eq), "definition of fileSeg, instantiated")
		}
		return svTerm(eq)
	case "addr":
		// addr(p.f): the address of field f of the object p points to (the term the
		// executor uses for &p.f)
		sel := n.Args[0]
		if sel.Kind != "sel" {
			e.fail("addr needs a field selection")
		}
		base := e.eval(sel.Args[0])
		if base.V == nil {
			e.fail("addr: base is not a Go value")
		}
		pt, ok := base.V.T.Underlying().(*types.Pointer)
		if !ok {
			e.fail("addr: base is not a pointer")
		}
		st, ok := pt.Elem().Underlying().(*types.Struct)
		if !ok {
			e.fail("addr: base does not point to a struct")
		}
		if idx, _ := findField(st, sel.Name); idx < 0 {
			e.fail("addr: no field %s", sel.Name)
		}
		l := x.locOf(base.V.One(), pt.Elem())
		nl := *l
		if nl.Kind == LBox || nl.Kind == LArr {
			nl = Loc{Kind: LObj, Ref: base.V.One(), T: pt.Elem()}
		}
		nl.Path += "." + sel.Name
		return svTerm(x.ptrOf(&nl))
	case "deref":
		// deref(p): the value a pointer (or a pointer boxed in an interface, as in
		// binary.Read(r, order, &x)) points to, in the current state
		a := e.eval(n.Args[0])
		if a.V == nil {
			e.fail("deref needs a Go value")
		}
		var pt *Term
		var elem types.Type
		switch u := a.V.T.Underlying().(type) {
		case *types.Pointer:
			pt, elem = a.V.L[0], u.Elem()
		case *types.Interface:
			pt = a.V.L[1]
			if a.V.L[0].IsLit() {
				if ct := x.typeFromID(a.V.L[0].Val.Int64()); ct != nil {
					if p, ok := ct.Underlying().(*types.Pointer); ok {
						elem = p.Elem()
					}
				}
			}
		}
		if pt == nil || elem == nil {
			e.fail("deref: not a pointer of statically known type")
		}
		l := x.locOf(pt, elem)
		if l.Kind == LCell {
			v, ok := e.st.cells[l.Cell]
			if !ok {
				e.fail("deref: cell not live")
			}
			return svValue(v)
		}
		return svValue(x.load(e.st, l, elem))
	case "str":
		// str(b): the string conversion of a byte slice
		a := e.eval(n.Args[0])
		if a.V == nil || len(a.V.L) != 4 {
			e.fail("str needs a byte slice")
		}
		return svTerm(x.bytesToStr(e.st, *a.V))
	case "strlt":
		d := B.DeclFunc("strlt", []*Sort{StrSort, StrSort}, BoolSort)
		return svTerm(B.App(d, argT(0), argT(1)))
	case "strlit":
		return svTerm(x.strLit(n.Args[0].Name))
	}
	if lv, ok := e.vars[n.Name]; ok && lv.Lam != nil {
		if len(n.Args) != len(lv.Lam.Params) {
			e.fail("%s expects %d arguments", n.Name, len(lv.Lam.Params))
		}
		m := map[*Term]*Term{}
		for i := range n.Args {
			m[lv.Lam.Params[i]] = argT(i)
		}
		return svTerm(B.Subst(lv.Lam.Result, m))
	}
	if sp, ok := x.W.Specs.StrPreds[n.Name]; ok {
		return svTerm(x.strPredApp(sp, argT(0)))
	}
	if sf, ok := x.W.Specs.Funcs[n.Name]; ok {
		var args []SV
		for _, a := range n.Args {
			args = append(args, e.eval(a))
		}
		return e.callSpec(sf, args)
	}
	e.fail("unknown spec function %q", n.Name)
	return SV{}
}

func isGoSort(s string) bool {
	return strings.ContainsAny(s, "*.[") || s == "error" || s == "any"
}

func (e *Env) callSpec(sf *SpecFunc, args []SV) SV {
	x := e.x
	B := x.B
	if len(args) != len(sf.Params) {
		e.fail("spec function %s expects %d arguments", sf.Name, len(sf.Params))
	}
	if sf.Body != nil && sf.Rec {
		return e.callRec(sf, args)
	}
	if sf.Body != nil && !sf.Rec {
		// macro expansion; Go-typed parameters are passed as they are
		ne := &Env{x: x, st: e.st, old: e.old, vars: map[string]SV{}, pkg: e.pkg}
		for i, p := range sf.Params {
			if isGoSort(sf.PSorts[i]) {
				if args[i].V == nil && !args[i].Nil {
					e.fail("argument %d of %s must be a Go value of type %s", i, sf.Name, sf.PSorts[i])
				}
				ne.vars[p] = args[i]
				continue
			}
			t := e.term(args[i])
			want := e.sortByName(sf.PSorts[i])
			if t.Sort != want {
				e.fail("argument %d of %s has sort %s, want %s", i, sf.Name, t.Sort, want)
			}
			ne.vars[p] = svTerm(t)
		}
		return ne.eval(sf.Body)
	}
	var ts []*Term
	for i, a := range args {
		t := e.term(a)
		want := e.sortByName(sf.PSorts[i])
		if t.Sort != want {
			e.fail("argument %d of %s has sort %s, want %s", i, sf.Name, t.Sort, want)
		}
		ts = append(ts, t)
	}
	var as []*Sort
	for _, s := range sf.PSorts {
		as = append(as, e.sortByName(s))
	}
	d := B.DeclFunc("spec$"+sf.Name, as, e.sortByName(sf.Ret))
	if len(ts) == 0 {
		return svTerm(B.Const("spec$"+sf.Name, e.sortByName(sf.Ret)))
	}
	return svTerm(B.App(d, ts...))
}

func (x *X) ghostRead(st *State, g *GhostVar, srt *Sort) *Term {
	return x.heapRead(st, "ghost:"+g.Name, srt)
}

func (x *X) typeIDByShortName(name string) (*Term, bool) {
	// search loaded types by short name
	for _, p := range x.W.Pkgs {
		_ = p
	}
	if t, ok := x.W.typeByShortName(name); ok {
		return x.typeID(t), true
	}
	return nil, false
}

func (w *World) typeByShortName(name string) (types.Type, bool) {
	ptr := false
	if strings.HasPrefix(name, "*") {
		ptr = true
		name = name[1:]
	}
	idx := strings.LastIndex(name, ".")
	if idx < 0 {
		if obj, ok := types.Universe.Lookup(name).(*types.TypeName); ok {
			var t types.Type = obj.Type()
			if ptr {
				t = types.NewPointer(t)
			}
			return t, true
		}
		return nil, false
	}
	pkgName, tname := name[:idx], name[idx+1:]
	for path, sp := range w.SPkgs {
		if shortPkgPath(path) == pkgName || path == pkgName {
			if obj := sp.Pkg.Scope().Lookup(tname); obj != nil {
				if tn, ok := obj.(*types.TypeName); ok {
					var t types.Type = tn.Type()
					if ptr {
						t = types.NewPointer(t)
					}
					return t, true
				}
			}
		}
	}
	return nil, false
}

// safeEval runs f and converts evaluation panics into errors.
func safeEval(f func()) (err error) {
	defer func() {
		if r := recover(); r != nil {
			if ee, ok := r.(evalErr); ok {
				err = fmt.Errorf("%s", ee.msg)
				return
			}
			panic(r)
		}
	}()
	f()
	return nil
}

// ---- environments for functions ------------------------------------------

// envForCall builds the environment for evaluating a contract of fn with the
// given argument values (receiver first).
func (x *X) envForFunc(fn *ssa.Function, sig *types.Signature, names []string, args []Value, st, old *State) *Env {
	e := &Env{x: x, st: st, old: old, vars: map[string]SV{}}
	if fn != nil && fn.Pkg != nil {
		e.pkg = fn.Pkg.Pkg
	} else if fn != nil && fn.Parent() != nil {
		p := fn
		for p.Parent() != nil {
			p = p.Parent()
		}
		if p.Pkg != nil {
			e.pkg = p.Pkg.Pkg
		}
	}
	for i, n := range names {
		if i < len(args) && n != "" && n != "_" {
			e.vars[n] = svValue(args[i])
		}
	}
	return e
}

func (e *Env) bindResults(names []string, vals []Value) {
	for i, n := range names {
		if i < len(vals) {
			e.vars[n] = svValue(vals[i])
		}
	}
	if len(vals) >= 1 {
		e.vars["result"] = svValue(vals[0])
		for i := range vals {
			e.vars[fmt.Sprintf("result%d", i)] = svValue(vals[i])
		}
	}
}

// callRec: a recursive spec function f(fixed..., i). It becomes an
// uninterpreted function of i (specific to the fixed arguments and to the
// heap state its body reads) together with its definitional axiom
//   forall i :: f(i) == body(fixed..., i)
// which the solver unfolds by E-matching where f(...) terms occur.
func (e *Env) callRec(sf *SpecFunc, args []SV) SV {
	x := e.x
	B := x.B
	n := len(sf.Params)
	if n == 0 || isGoSort(sf.PSorts[n-1]) || e.sortByName(sf.PSorts[n-1]) != IntSort {
		e.fail("recursive spec function %s: last parameter must be an int", sf.Name)
	}
	last := e.term(args[n-1])
	if sym, ok := e.recSym[sf.Name]; ok {
		// recursive occurrence inside the body
		return svTerm(B.App(B.funcs[sym], last))
	}
	ret := e.sortByName(sf.Ret)
	evalBody := func(sym string) *Term {
		d := B.DeclFunc(sym, []*Sort{IntSort}, ret)
		ne := &Env{x: x, st: e.st, old: e.old, vars: map[string]SV{}, pkg: e.pkg, recSym: map[string]string{}}
		for k, v := range e.recSym {
			ne.recSym[k] = v
		}
		ne.recSym[sf.Name] = d.Name
		for i, p := range sf.Params[:n-1] {
			ne.vars[p] = args[i]
		}
		bv := B.BoundVar("rec$i", IntSort)
		ne.vars[sf.Params[n-1]] = svTerm(bv)
		return ne.term(ne.eval(sf.Body))
	}
	key := evalBody("rec$" + sf.Name + "$PLACEHOLDER")
	sym := fmt.Sprintf("rec$%s$%d", sf.Name, key.id)
	d := B.DeclFunc(sym, []*Sort{IntSort}, ret)
	if !x.typed[-13*key.id-7] {
		x.typed[-13*key.id-7] = true
		body := evalBody(sym)
		bv := B.BoundVar("rec$i", IntSort)
		x.assumeGlobal(B.Forall([]*Term{bv}, B.Eq(B.App(d, bv), body)), "definition of "+sf.Name)
	}
	return svTerm(B.App(d, last))
}
