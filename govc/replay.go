package main

import (
	"bytes"
	"context"
	"fmt"
	"os"
	"os/exec"
	"strings"
	"time"
)

// tryReplay attempts to reproduce a failed obligation on the real code.
// It returns whether the bad behaviour was reproduced and a description.
func tryReplay(w *World, f failure, prop string) (bool, string) {
	tmpl := findReplayTemplate(f.res.Obl)
	if tmpl == nil {
		return false, "no replay template for this obligation kind; the verifier's model is given above"
	}
	return tmpl.run(w, f, prop)
}

func runBounded(b BoundedSpec) map[string]interface{} {
	start := time.Now()
	ctx, cancel := context.WithTimeout(context.Background(), 10*time.Minute)
	defer cancel()
	cmd := exec.CommandContext(ctx, "/bin/sh", "-c", b.Cmd)
	cmd.Dir = verifDir()
	cmd.Env = append(os.Environ(), "GOFLAGS=-mod=mod", "GOPROXY=off")
	var out bytes.Buffer
	cmd.Stdout = &out
	cmd.Stderr = &out
	err := cmd.Run()
	res := map[string]interface{}{"name": b.Name, "bound": b.Bound, "cmd": b.Cmd, "seconds": round3(time.Since(start).Seconds()), "ok": err == nil,
		"label": "bounded (not counted as proved)"}
	lines := strings.Split(strings.TrimSpace(out.String()), "\n")
	if len(lines) > 0 {
		res["last_line"] = lines[len(lines)-1]
	}
	if err != nil {
		res["output"] = truncateStr(out.String(), 8000)
		res["error"] = fmt.Sprint(err)
	}
	return res
}

type replayTemplate struct {
	match func(o *Obligation) bool
	run   func(w *World, f failure, prop string) (bool, string)
}

var replayTemplates []*replayTemplate

func findReplayTemplate(o *Obligation) *replayTemplate {
	for _, t := range replayTemplates {
		if t.match(o) {
			return t
		}
	}
	return nil
}
