package main

import (
	"bytes"
	"context"
	"encoding/binary"
	"encoding/json"
	"fmt"
	"math/big"
	"os"
	"os/exec"
	"path/filepath"
	"sort"
	"strings"
	"text/template"
	"time"

	"golang.org/x/tools/go/ssa"
)

// Replay: a failed obligation comes with a solver model. For functions that
// have a replay template (/verif/replay/*.tmpl) the model's inputs and the
// values the peer "sent" (results of Conn.Read* / io.ReadFull calls on the
// failing path) are spliced into an in-package Go test that runs the real
// code through `go test -overlay`, without writing into /repo.

type replayTmpl struct {
	File   string
	Func   string
	Funcs  []string
	PkgDir string
	Kinds  []string
	Label  string
	Inputs [][2]string // name, spec expression over the root's parameters (entry state)
	Prefer []string    // spec expressions (entry state) that steer the solver towards small, replayable models
	Body   string
}

func loadReplayTemplates() []*replayTmpl {
	files, _ := filepath.Glob(filepath.Join(verifDir(), "replay", "*.tmpl"))
	sort.Strings(files)
	var out []*replayTmpl
	for _, f := range files {
		data, err := os.ReadFile(f)
		if err != nil {
			continue
		}
		t := &replayTmpl{File: f}
		var body []string
		for _, line := range strings.Split(string(data), "\n") {
			if strings.HasPrefix(line, "//replay:") {
				w, rest := splitWord(strings.TrimPrefix(line, "//replay:"))
				switch w {
				case "func":
					t.Func = rest
					t.Funcs = append(t.Funcs, rest)
				case "pkgdir":
					t.PkgDir = rest
				case "kinds":
					t.Kinds = strings.Split(strings.ReplaceAll(rest, " ", ""), ",")
				case "label":
					t.Label = rest
				case "prefer":
					t.Prefer = append(t.Prefer, rest)
				case "input":
					parts := strings.SplitN(rest, "=", 2)
					if len(parts) == 2 {
						t.Inputs = append(t.Inputs, [2]string{strings.TrimSpace(parts[0]), strings.TrimSpace(parts[1])})
					}
				}
				continue
			}
			body = append(body, line)
		}
		t.Body = strings.Join(body, "\n")
		out = append(out, t)
	}
	return out
}

type wireEvent struct {
	Name string
	Vals []string
	Lens []string
}

func tryReplay(w *World, f failure, prop string) (bool, string) {
	if f.res.Status != "failed" || f.run.X == nil {
		return false, "no model (the solver did not return sat); nothing to replay"
	}
	var tmpl *replayTmpl
	for _, t := range loadReplayTemplates() {
		if !contains(t.Funcs, f.run.Func) {
			continue
		}
		if len(t.Kinds) > 0 && !contains(t.Kinds, f.res.Obl.Kind) {
			continue
		}
		if t.Label != "" && !strings.Contains(f.res.Obl.Name, t.Label) {
			continue
		}
		tmpl = t
		break
	}
	if tmpl == nil {
		return false, "no replay template for " + f.run.Func + " / " + f.res.Obl.Kind + "; the verifier's model is given above"
	}
	x := f.run.X
	fn := w.Func(f.run.Func)
	// watch terms: template inputs, then events
	var watch []*Term
	type inRef struct {
		name string
		idx  int
	}
	var ins []inRef
	env := x.rootEnv
	for _, in := range tmpl.Inputs {
		e, err := ParseSpecExpr(in[1])
		if err != nil {
			return false, fmt.Sprintf("replay template %s: input %s: %v", tmpl.File, in[0], err)
		}
		var t *Term
		if err := safeEval(func() { t = env.term(env.eval(e)) }); err != nil {
			return false, fmt.Sprintf("replay template %s: input %s: %v", tmpl.File, in[0], err)
		}
		ins = append(ins, inRef{in[0], len(watch)})
		watch = append(watch, t)
	}
	type evRef struct {
		ev    callEvent
		guard int
		vals  []int
		lens  []int
	}
	var evs []evRef
	for _, ev := range x.events {
		r := evRef{ev: ev, guard: len(watch)}
		watch = append(watch, ev.Guard)
		for _, v := range ev.Vals {
			if v.Sort == IntSort || v.Sort == BoolSort {
				r.vals = append(r.vals, len(watch))
				watch = append(watch, v)
			} else {
				r.vals = append(r.vals, -1)
			}
		}
		for _, l := range ev.Lens {
			r.lens = append(r.lens, len(watch))
			watch = append(watch, l)
		}
		evs = append(evs, r)
	}
	// preferences: extra constraints for a small model; dropped when they make the query unsatisfiable
	var prefs []*Term
	for _, pe := range tmpl.Prefer {
		e, err := ParseSpecExpr(pe)
		if err != nil {
			return false, fmt.Sprintf("replay template %s: prefer %s: %v", tmpl.File, pe, err)
		}
		var t *Term
		if err := safeEval(func() { t = env.Bool(e) }); err != nil {
			return false, fmt.Sprintf("replay template %s: prefer %s: %v", tmpl.File, pe, err)
		}
		prefs = append(prefs, t)
	}
	var sr SolveResult
	if len(prefs) > 0 {
		o2 := *f.res.Obl
		o2.Guard = x.B.And(append([]*Term{o2.Guard}, prefs...)...)
		sr = Solve(x.buildQueryWatch(&o2, watch), "replayp_"+f.res.Obl.Name, 30*time.Second)
	}
	if sr.Status != "sat" {
		script := x.buildQueryWatch(f.res.Obl, watch)
		sr = Solve(script, "replay_"+f.res.Obl.Name, 20*time.Second)
	}
	if sr.Status != "sat" {
		return false, "could not re-derive the model with watch terms (" + sr.Status + ")"
	}
	vals := parseGetValue(sr.Raw)
	get := func(i int) string {
		if i < 0 {
			return ""
		}
		return vals[fmt.Sprintf("w!%d", i)]
	}
	data := map[string]interface{}{}
	inMap := map[string]string{}
	for _, in := range ins {
		inMap[in.name] = get(in.idx)
	}
	var wire []wireEvent
	for _, r := range evs {
		if get(r.guard) != "true" {
			continue
		}
		we := wireEvent{Name: r.ev.Name}
		for _, i := range r.vals {
			we.Vals = append(we.Vals, get(i))
		}
		for _, i := range r.lens {
			we.Lens = append(we.Lens, get(i))
		}
		wire = append(wire, we)
	}
	data["In"] = inMap
	data["Wire"] = goBytes(wireBytes(wire))
	data["Events"] = wire
	data["Obligation"] = f.res.Obl.Name
	tt, err := template.New("replay").Parse(tmpl.Body)
	if err != nil {
		return false, fmt.Sprintf("replay template %s: %v", tmpl.File, err)
	}
	var src bytes.Buffer
	if err := tt.Execute(&src, data); err != nil {
		return false, fmt.Sprintf("replay template %s: %v", tmpl.File, err)
	}
	_ = fn
	ok, out := runOverlayTest(w.RepoDir, tmpl.PkgDir, src.String(), "TestVerifReplay")
	evj, _ := json.Marshal(wire)
	desc := fmt.Sprintf("template: %s\ninputs: %v\npeer events on the failing path: %s\n--- go test (overlay, real code) ---\n%s", tmpl.File, inMap, evj, truncateStr(out, 4000))
	desc += "\n--- generated test ---\n" + src.String()
	return ok, desc
}

// runOverlayTest injects src as an extra _test.go file of pkgDir and runs it.
func runOverlayTest(repo, pkgDir, src, run string) (bool, string) {
	dir := scratch()
	testFile := filepath.Join(dir, fmt.Sprintf("zz_verif_replay_%d_test.go", time.Now().UnixNano()))
	if err := os.WriteFile(testFile, []byte(src), 0o644); err != nil {
		return false, err.Error()
	}
	defer os.Remove(testFile)
	ov := map[string]map[string]string{"Replace": {filepath.Join(repo, pkgDir, "zz_verif_replay_test.go"): testFile}}
	ovData, _ := json.Marshal(ov)
	ovFile := testFile + ".overlay.json"
	os.WriteFile(ovFile, ovData, 0o644)
	defer os.Remove(ovFile)
	ctx, cancel := context.WithTimeout(context.Background(), 180*time.Second)
	defer cancel()
	cmd := exec.CommandContext(ctx, "go", "test", "-v", "-overlay", ovFile, "-vet=off", "-count=1", "-timeout", "60s", "-run", run, "./"+pkgDir+"/")
	cmd.Dir = repo
	cmd.Env = append(os.Environ(), "GOFLAGS=-mod=mod", "GOPROXY=off")
	var out bytes.Buffer
	cmd.Stdout = &out
	cmd.Stderr = &out
	cmd.Run()
	return strings.Contains(out.String(), "VERIF-REPLAY: reproduced"), out.String()
}

func (x *X) buildQueryWatch(o *Obligation, watch []*Term) string {
	B := x.B
	goal := B.And(o.Guard, B.Not(o.Cond))
	memo := map[*Term]map[string]bool{}
	qmemo := map[*Term]bool{}
	want := map[string]bool{}
	for k := range symbolsOf(goal, memo) {
		want[k] = true
	}
	for _, wt := range watch {
		for k := range symbolsOf(wt, memo) {
			want[k] = true
		}
	}
	var asserts []*Term
	type cand struct {
		t    *Term
		syms map[string]bool
		used bool
	}
	var cands []*cand
	for _, a := range x.assums[:o.NAssum] {
		t := B.Implies(a.Guard, a.Fact)
		if t.IsTrue() || hasQuant(t, qmemo) {
			continue
		}
		cands = append(cands, &cand{t: t, syms: symbolsOf(t, memo)})
	}
	for changed := true; changed; {
		changed = false
		for _, c := range cands {
			if c.used {
				continue
			}
			for s := range c.syms {
				if want[s] {
					c.used = true
					changed = true
					for s2 := range c.syms {
						want[s2] = true
					}
					break
				}
			}
		}
	}
	for _, c := range cands {
		if c.used {
			asserts = append(asserts, c.t)
		}
	}
	asserts = append(asserts, goal)
	return B.ScriptWatch(asserts, "", false, watch)
}

func parseGetValue(out string) map[string]string {
	m := map[string]string{}
	idx := strings.Index(out, "((")
	if idx < 0 {
		return m
	}
	toks := tokenize(out[idx:])
	pos := 0
	var parse func() interface{}
	parse = func() interface{} {
		if pos >= len(toks) {
			return nil
		}
		t := toks[pos]
		pos++
		if t == "(" {
			var l []interface{}
			for pos < len(toks) && toks[pos] != ")" {
				l = append(l, parse())
			}
			pos++
			return l
		}
		return t
	}
	top, _ := parse().([]interface{})
	for _, e := range top {
		p, ok := e.([]interface{})
		if !ok || len(p) != 2 {
			continue
		}
		name, _ := p[0].(string)
		m[name] = sexprString(p[1])
	}
	return m
}

// wireBytes serialises the peer events the way the real peer would have
// sent them; an event whose error result is set ends the stream.
func wireBytes(evs []wireEvent) []byte {
	var buf bytes.Buffer
	num := func(s string) *big.Int {
		v, ok := new(big.Int).SetString(s, 10)
		if !ok {
			return big.NewInt(0)
		}
		return v
	}
	for _, ev := range evs {
		// the last two leaves of the results are the error interface (tag, data)
		errTag := "0"
		n := len(ev.Vals)
		if n >= 2 {
			errTag = ev.Vals[n-2]
		}
		failed := errTag != "0" && errTag != ""
		switch {
		case strings.HasSuffix(ev.Name, ".ReadInt32"):
			if failed {
				return buf.Bytes()
			}
			binary.Write(&buf, binary.LittleEndian, int32(num(ev.Vals[0]).Int64()))
		case strings.HasSuffix(ev.Name, ".ReadByte"):
			if failed {
				return buf.Bytes()
			}
			buf.WriteByte(byte(num(ev.Vals[0]).Int64()))
		case strings.HasSuffix(ev.Name, ".ReadInt64"):
			if failed {
				return buf.Bytes()
			}
			v := num(ev.Vals[0]).Int64()
			if v >= 0 && v <= 0x7fffffff {
				binary.Write(&buf, binary.LittleEndian, int32(v))
			} else {
				binary.Write(&buf, binary.LittleEndian, int32(-1))
				binary.Write(&buf, binary.LittleEndian, v)
			}
		case ev.Name == "io.ReadFull":
			if failed {
				return buf.Bytes()
			}
			if len(ev.Lens) > 0 {
				n := num(ev.Lens[0]).Int64()
				if n > 0 && n < 1<<20 {
					buf.Write(make([]byte, n))
				}
			}
		}
	}
	return buf.Bytes()
}

func goBytes(b []byte) string {
	var sb strings.Builder
	sb.WriteString("[]byte{")
	for i, c := range b {
		if i > 0 {
			sb.WriteString(", ")
		}
		fmt.Fprintf(&sb, "0x%02x", c)
	}
	sb.WriteString("}")
	return sb.String()
}

func runBounded(b BoundedSpec) map[string]interface{} {
	start := time.Now()
	ctx, cancel := context.WithTimeout(context.Background(), 10*time.Minute)
	defer cancel()
	cmd := exec.CommandContext(ctx, "/bin/sh", "-c", b.Cmd)
	cmd.Dir = verifDir()
	cmd.Env = append(os.Environ(), "GOFLAGS=-mod=mod", "GOPROXY=off")
	var out bytes.Buffer
	cmd.Stdout = &out
	cmd.Stderr = &out
	err := cmd.Run()
	res := map[string]interface{}{"name": b.Name, "bound": b.Bound, "cmd": b.Cmd, "seconds": round3(time.Since(start).Seconds()), "ok": err == nil,
		"label": "bounded (not counted as proved)"}
	lines := strings.Split(strings.TrimSpace(out.String()), "\n")
	if len(lines) > 0 {
		res["last_line"] = lines[len(lines)-1]
	}
	if err != nil {
		res["output"] = truncateStr(out.String(), 8000)
		res["error"] = fmt.Sprint(err)
	}
	return res
}

var _ = ssa.NewProgram
