package main

// SMT term DAG with hash-consing, light simplification and an SMT-LIB 2
// printer. All Go integer types are modelled as SMT Int with explicit
// wrap-around (see DESIGN.md §2.2, "integer model as built").

import (
	"fmt"
	"math/big"
	"sort"
	"strings"
)

type SortKind int

const (
	SBool SortKind = iota
	SInt
	SArray
	SUnint // uninterpreted sort (Str, F64, ...)
)

type Sort struct {
	Kind SortKind
	Name string // for SUnint
	K, V *Sort  // for SArray
}

var (
	BoolSort = &Sort{Kind: SBool}
	IntSort  = &Sort{Kind: SInt}
	StrSort  = &Sort{Kind: SUnint, Name: "Str"}
	F64Sort  = &Sort{Kind: SUnint, Name: "F64"}
	arrSorts = map[string]*Sort{}
)

func ArraySort(k, v *Sort) *Sort {
	key := k.String() + "->" + v.String()
	if s, ok := arrSorts[key]; ok {
		return s
	}
	s := &Sort{Kind: SArray, K: k, V: v}
	arrSorts[key] = s
	return s
}

func (s *Sort) String() string {
	switch s.Kind {
	case SBool:
		return "Bool"
	case SInt:
		return "Int"
	case SArray:
		return "(Array " + s.K.String() + " " + s.V.String() + ")"
	default:
		return s.Name
	}
}

type Term struct {
	Op   string // "const","int","true","false","app", or an SMT operator
	Name string // symbol for const/app/bound var
	Val  *big.Int
	Args []*Term
	Sort *Sort
	// quantifier support
	Bound []*Term // bound variables (Op "forall"/"exists")
	id    int
	key   string
}

// TermBank interns terms and remembers declarations.
type TermBank struct {
	fbMemo map[*Term]map[*Term]bool
	bvMemo map[*Term]bool
	terms  map[string]*Term
	nextID int
	consts map[string]*Sort   // declared constants
	funcs  map[string]*FuncDecl // declared uninterpreted functions
	fresh  map[string]int
}

type FuncDecl struct {
	Name string
	Args []*Sort
	Ret  *Sort
}

func NewBank() *TermBank {
	return &TermBank{bvMemo: map[*Term]bool{}, terms: map[string]*Term{}, consts: map[string]*Sort{}, funcs: map[string]*FuncDecl{}, fresh: map[string]int{}}
}

func (b *TermBank) intern(t *Term) *Term {
	var sb strings.Builder
	sb.WriteString(t.Op)
	sb.WriteByte('|')
	sb.WriteString(t.Name)
	if t.Val != nil {
		sb.WriteByte('#')
		sb.WriteString(t.Val.String())
	}
	for _, a := range t.Args {
		fmt.Fprintf(&sb, ",%d", a.id)
	}
	for _, a := range t.Bound {
		fmt.Fprintf(&sb, ";%d", a.id)
	}
	if t.Op == "const" || t.Op == "bound" {
		sb.WriteByte(':')
		sb.WriteString(t.Sort.String())
	}
	k := sb.String()
	if e, ok := b.terms[k]; ok {
		return e
	}
	b.nextID++
	t.id = b.nextID
	t.key = k
	b.terms[k] = t
	return t
}

func sanitize(s string) string {
	var sb strings.Builder
	for _, r := range s {
		switch {
		case r >= 'a' && r <= 'z', r >= 'A' && r <= 'Z', r >= '0' && r <= '9', r == '_', r == '.', r == '$', r == '@', r == '!':
			sb.WriteRune(r)
		case r == '#':
			sb.WriteByte('%')
		default:
			sb.WriteByte('_')
		}
	}
	return sb.String()
}

// Const returns the (declared) constant with the given name.
func (b *TermBank) Const(name string, s *Sort) *Term {
	name = sanitize(name)
	if old, ok := b.consts[name]; ok && old != s {
		panic(fmt.Sprintf("constant %s redeclared with sort %s (was %s)", name, s, old))
	}
	b.consts[name] = s
	return b.intern(&Term{Op: "const", Name: name, Sort: s})
}

// Fresh returns a new constant whose name starts with prefix.
func (b *TermBank) Fresh(prefix string, s *Sort) *Term {
	prefix = sanitize(prefix)
	for {
		b.fresh[prefix]++
		name := fmt.Sprintf("%s!%d", prefix, b.fresh[prefix])
		if _, ok := b.consts[name]; !ok {
			return b.Const(name, s)
		}
	}
}

func (b *TermBank) BoundVar(name string, s *Sort) *Term {
	return b.intern(&Term{Op: "bound", Name: sanitize(name), Sort: s})
}

func (b *TermBank) DeclFunc(name string, args []*Sort, ret *Sort) *FuncDecl {
	name = sanitize(name)
	if d, ok := b.funcs[name]; ok {
		return d
	}
	d := &FuncDecl{Name: name, Args: args, Ret: ret}
	b.funcs[name] = d
	return d
}

func (b *TermBank) App(d *FuncDecl, args ...*Term) *Term {
	if len(args) != len(d.Args) {
		panic(fmt.Sprintf("arity mismatch for %s: %d vs %d", d.Name, len(args), len(d.Args)))
	}
	for i, a := range args {
		if a.Sort != d.Args[i] {
			panic(fmt.Sprintf("sort mismatch for %s arg %d: %s vs %s", d.Name, i, a.Sort, d.Args[i]))
		}
	}
	return b.intern(&Term{Op: "app", Name: d.Name, Args: args, Sort: d.Ret})
}

func (b *TermBank) True() *Term  { return b.intern(&Term{Op: "true", Sort: BoolSort}) }
func (b *TermBank) False() *Term { return b.intern(&Term{Op: "false", Sort: BoolSort}) }
func (b *TermBank) Bool(v bool) *Term {
	if v {
		return b.True()
	}
	return b.False()
}

func (b *TermBank) Int(v int64) *Term { return b.BigInt(big.NewInt(v)) }
func (b *TermBank) BigInt(v *big.Int) *Term {
	return b.intern(&Term{Op: "int", Val: new(big.Int).Set(v), Sort: IntSort})
}

func (t *Term) IsTrue() bool  { return t.Op == "true" }
func (t *Term) IsFalse() bool { return t.Op == "false" }
func (t *Term) IsLit() bool   { return t.Op == "int" }

func (b *TermBank) Not(a *Term) *Term {
	switch a.Op {
	case "true":
		return b.False()
	case "false":
		return b.True()
	case "not":
		return a.Args[0]
	}
	return b.intern(&Term{Op: "not", Args: []*Term{a}, Sort: BoolSort})
}

func (b *TermBank) And(as ...*Term) *Term {
	var out []*Term
	seen := map[int]bool{}
	for _, a := range as {
		if a.IsFalse() {
			return b.False()
		}
		if a.IsTrue() {
			continue
		}
		if a.Op == "and" {
			for _, x := range a.Args {
				if !seen[x.id] {
					seen[x.id] = true
					out = append(out, x)
				}
			}
			continue
		}
		if !seen[a.id] {
			seen[a.id] = true
			out = append(out, a)
		}
	}
	for _, a := range out {
		if a.Op == "not" && seen[a.Args[0].id] {
			return b.False()
		}
	}
	if len(out) == 0 {
		return b.True()
	}
	if len(out) == 1 {
		return out[0]
	}
	return b.intern(&Term{Op: "and", Args: out, Sort: BoolSort})
}

func (b *TermBank) Or(as ...*Term) *Term {
	var out []*Term
	seen := map[int]bool{}
	for _, a := range as {
		if a.IsTrue() {
			return b.True()
		}
		if a.IsFalse() {
			continue
		}
		if a.Op == "or" {
			for _, x := range a.Args {
				if !seen[x.id] {
					seen[x.id] = true
					out = append(out, x)
				}
			}
			continue
		}
		if !seen[a.id] {
			seen[a.id] = true
			out = append(out, a)
		}
	}
	for _, a := range out {
		if a.Op == "not" && seen[a.Args[0].id] {
			return b.True()
		}
	}
	if len(out) == 0 {
		return b.False()
	}
	if len(out) == 1 {
		return out[0]
	}
	return b.intern(&Term{Op: "or", Args: out, Sort: BoolSort})
}

func (b *TermBank) Implies(a, c *Term) *Term {
	if a.IsTrue() {
		return c
	}
	if a.IsFalse() || c.IsTrue() {
		return b.True()
	}
	if c.IsFalse() {
		return b.Not(a)
	}
	if a == c {
		return b.True()
	}
	return b.intern(&Term{Op: "=>", Args: []*Term{a, c}, Sort: BoolSort})
}

func (b *TermBank) Iff(a, c *Term) *Term { return b.Eq(a, c) }

func (b *TermBank) Ite(c, x, y *Term) *Term {
	if c.IsTrue() {
		return x
	}
	if c.IsFalse() {
		return y
	}
	if x == y {
		return x
	}
	if x.Sort != y.Sort {
		panic(fmt.Sprintf("ite sort mismatch %s vs %s", x.Sort, y.Sort))
	}
	if x.Sort == BoolSort {
		if x.IsTrue() && y.IsFalse() {
			return c
		}
		if x.IsFalse() && y.IsTrue() {
			return b.Not(c)
		}
		if x.IsTrue() {
			return b.Or(c, y)
		}
		if y.IsFalse() {
			return b.And(c, x)
		}
		if x.IsFalse() {
			return b.And(b.Not(c), y)
		}
		if y.IsTrue() {
			return b.Or(b.Not(c), x)
		}
	}
	return b.intern(&Term{Op: "ite", Args: []*Term{c, x, y}, Sort: x.Sort})
}

func (b *TermBank) Eq(x, y *Term) *Term {
	if x == y {
		return b.True()
	}
	if x.Sort != y.Sort {
		panic(fmt.Sprintf("= sort mismatch %s vs %s (%s, %s)", x.Sort, y.Sort, x, y))
	}
	if x.IsLit() && y.IsLit() {
		return b.Bool(x.Val.Cmp(y.Val) == 0)
	}
	if x.Sort == BoolSort {
		if x.IsTrue() {
			return y
		}
		if y.IsTrue() {
			return x
		}
		if x.IsFalse() {
			return b.Not(y)
		}
		if y.IsFalse() {
			return b.Not(x)
		}
	}
	if x.id > y.id {
		x, y = y, x
	}
	return b.intern(&Term{Op: "=", Args: []*Term{x, y}, Sort: BoolSort})
}

func (b *TermBank) Neq(x, y *Term) *Term { return b.Not(b.Eq(x, y)) }

func (b *TermBank) cmp(op string, x, y *Term) *Term {
	if x.Sort != IntSort || y.Sort != IntSort {
		panic("cmp on non-int: " + x.String() + " " + y.String())
	}
	if x.IsLit() && y.IsLit() {
		c := x.Val.Cmp(y.Val)
		switch op {
		case "<":
			return b.Bool(c < 0)
		case "<=":
			return b.Bool(c <= 0)
		case ">":
			return b.Bool(c > 0)
		case ">=":
			return b.Bool(c >= 0)
		}
	}
	if x == y {
		return b.Bool(op == "<=" || op == ">=")
	}
	return b.intern(&Term{Op: op, Args: []*Term{x, y}, Sort: BoolSort})
}

func (b *TermBank) Lt(x, y *Term) *Term { return b.cmp("<", x, y) }
func (b *TermBank) Le(x, y *Term) *Term { return b.cmp("<=", x, y) }
func (b *TermBank) Gt(x, y *Term) *Term { return b.cmp("<", y, x) }
func (b *TermBank) Ge(x, y *Term) *Term { return b.cmp("<=", y, x) }

func (b *TermBank) Add(xs ...*Term) *Term {
	sum := new(big.Int)
	var out []*Term
	for _, x := range xs {
		if x.Sort != IntSort {
			panic("add on non-int " + x.String())
		}
		if x.IsLit() {
			sum.Add(sum, x.Val)
		} else if x.Op == "+" {
			for _, y := range x.Args {
				if y.IsLit() {
					sum.Add(sum, y.Val)
				} else {
					out = append(out, y)
				}
			}
		} else {
			out = append(out, x)
		}
	}
	if sum.Sign() != 0 || len(out) == 0 {
		out = append(out, b.BigInt(sum))
	}
	if len(out) == 1 {
		return out[0]
	}
	return b.intern(&Term{Op: "+", Args: out, Sort: IntSort})
}

func (b *TermBank) Neg(x *Term) *Term {
	if x.IsLit() {
		return b.BigInt(new(big.Int).Neg(x.Val))
	}
	return b.Mul(b.Int(-1), x)
}

func (b *TermBank) Sub(x, y *Term) *Term {
	if x == y {
		return b.Int(0)
	}
	if y.IsLit() {
		return b.Add(x, b.BigInt(new(big.Int).Neg(y.Val)))
	}
	if x.IsLit() && x.Val.Sign() == 0 {
		return b.Neg(y)
	}
	// x - y with y inside x's sum: cancel syntactically
	if x.Op == "+" {
		for i, a := range x.Args {
			if a == y {
				rest := append(append([]*Term{}, x.Args[:i]...), x.Args[i+1:]...)
				return b.Add(rest...)
			}
		}
	}
	return b.intern(&Term{Op: "-", Args: []*Term{x, y}, Sort: IntSort})
}

func (b *TermBank) Mul(x, y *Term) *Term {
	if x.IsLit() && y.IsLit() {
		return b.BigInt(new(big.Int).Mul(x.Val, y.Val))
	}
	if y.IsLit() {
		x, y = y, x
	}
	if x.IsLit() {
		if x.Val.Sign() == 0 {
			return b.Int(0)
		}
		if x.Val.Cmp(big.NewInt(1)) == 0 {
			return y
		}
	}
	return b.intern(&Term{Op: "*", Args: []*Term{x, y}, Sort: IntSort})
}

// Div and Mod are SMT-LIB integer div/mod (floor for positive divisor).
func (b *TermBank) Div(x, y *Term) *Term {
	if x.IsLit() && y.IsLit() && y.Val.Sign() > 0 {
		q := new(big.Int)
		m := new(big.Int)
		q.DivMod(x.Val, y.Val, m) // Euclidean
		return b.BigInt(q)
	}
	if y.IsLit() && y.Val.Cmp(big.NewInt(1)) == 0 {
		return x
	}
	return b.intern(&Term{Op: "div", Args: []*Term{x, y}, Sort: IntSort})
}

func (b *TermBank) Mod(x, y *Term) *Term {
	if x.IsLit() && y.IsLit() && y.Val.Sign() > 0 {
		q := new(big.Int)
		m := new(big.Int)
		q.DivMod(x.Val, y.Val, m)
		return b.BigInt(m)
	}
	return b.intern(&Term{Op: "mod", Args: []*Term{x, y}, Sort: IntSort})
}

func (b *TermBank) Select(a, i *Term) *Term {
	if a.Sort.Kind != SArray {
		panic("select on non-array " + a.String())
	}
	if i.Sort != a.Sort.K {
		panic("select index sort mismatch")
	}
	// read-over-write with syntactically decidable index equality
	for a.Op == "store" {
		if a.Args[1] == i {
			return a.Args[2]
		}
		if a.Args[1].IsLit() && i.IsLit() { // distinct literals
			a = a.Args[0]
			continue
		}
		break
	}
	return b.intern(&Term{Op: "select", Args: []*Term{a, i}, Sort: a.Sort.V})
}

func (b *TermBank) Store(a, i, v *Term) *Term {
	if a.Sort.Kind != SArray || i.Sort != a.Sort.K || v.Sort != a.Sort.V {
		panic(fmt.Sprintf("store sort mismatch: %s[%s] := %s", a.Sort, i.Sort, v.Sort))
	}
	if a.Op == "store" && a.Args[1] == i {
		a = a.Args[0]
	}
	return b.intern(&Term{Op: "store", Args: []*Term{a, i, v}, Sort: a.Sort})
}

func (b *TermBank) Forall(bound []*Term, body *Term) *Term {
	if body.IsTrue() {
		return body
	}
	return b.intern(&Term{Op: "forall", Bound: bound, Args: []*Term{body}, Sort: BoolSort})
}

func (b *TermBank) Exists(bound []*Term, body *Term) *Term {
	if body.IsFalse() {
		return body
	}
	return b.intern(&Term{Op: "exists", Bound: bound, Args: []*Term{body}, Sort: BoolSort})
}

func (b *TermBank) Distinct(xs ...*Term) *Term {
	if len(xs) < 2 {
		return b.True()
	}
	return b.intern(&Term{Op: "distinct", Args: xs, Sort: BoolSort})
}

var pow2cache = map[uint]*big.Int{}

func pow2(n uint) *big.Int {
	if v, ok := pow2cache[n]; ok {
		return v
	}
	v := new(big.Int).Lsh(big.NewInt(1), n)
	pow2cache[n] = v
	return v
}

// Substitute replaces constants/bound vars by terms (by term identity).
func (b *TermBank) Subst(t *Term, m map[*Term]*Term) *Term {
	cache := map[*Term]*Term{}
	var rec func(t *Term) *Term
	rec = func(t *Term) *Term {
		if r, ok := m[t]; ok {
			return r
		}
		if len(t.Args) == 0 {
			return t
		}
		if r, ok := cache[t]; ok {
			return r
		}
		args := make([]*Term, len(t.Args))
		changed := false
		for i, a := range t.Args {
			args[i] = rec(a)
			if args[i] != a {
				changed = true
			}
		}
		r := t
		if changed {
			r = b.rebuild(t, args)
		}
		cache[t] = r
		return r
	}
	return rec(t)
}

func (b *TermBank) rebuild(t *Term, args []*Term) *Term {
	switch t.Op {
	case "not":
		return b.Not(args[0])
	case "and":
		return b.And(args...)
	case "or":
		return b.Or(args...)
	case "=>":
		return b.Implies(args[0], args[1])
	case "ite":
		return b.Ite(args[0], args[1], args[2])
	case "=":
		return b.Eq(args[0], args[1])
	case "<":
		return b.Lt(args[0], args[1])
	case "<=":
		return b.Le(args[0], args[1])
	case "+":
		return b.Add(args...)
	case "-":
		return b.Sub(args[0], args[1])
	case "*":
		return b.Mul(args[0], args[1])
	case "div":
		return b.Div(args[0], args[1])
	case "mod":
		return b.Mod(args[0], args[1])
	case "select":
		return b.Select(args[0], args[1])
	case "store":
		return b.Store(args[0], args[1], args[2])
	case "app":
		return b.intern(&Term{Op: "app", Name: t.Name, Args: args, Sort: t.Sort})
	case "forall", "exists":
		return b.intern(&Term{Op: t.Op, Bound: t.Bound, Args: args, Sort: BoolSort})
	case "distinct":
		return b.Distinct(args...)
	}
	panic("rebuild: unknown op " + t.Op)
}

func (t *Term) String() string {
	var sb strings.Builder
	t.write(&sb, nil)
	return sb.String()
}

func (t *Term) write(sb *strings.Builder, names map[*Term]string) {
	if names != nil {
		if n, ok := names[t]; ok {
			sb.WriteString(n)
			return
		}
	}
	switch t.Op {
	case "const", "bound":
		sb.WriteString(t.Name)
	case "int":
		if t.Val.Sign() < 0 {
			sb.WriteString("(- ")
			sb.WriteString(new(big.Int).Neg(t.Val).String())
			sb.WriteString(")")
		} else {
			sb.WriteString(t.Val.String())
		}
	case "true", "false":
		sb.WriteString(t.Op)
	case "app":
		if len(t.Args) == 0 {
			sb.WriteString(t.Name)
			return
		}
		sb.WriteString("(")
		sb.WriteString(t.Name)
		for _, a := range t.Args {
			sb.WriteByte(' ')
			a.write(sb, names)
		}
		sb.WriteString(")")
	case "forall", "exists":
		sb.WriteString("(")
		sb.WriteString(t.Op)
		sb.WriteString(" (")
		for _, v := range t.Bound {
			fmt.Fprintf(sb, "(%s %s)", v.Name, v.Sort)
		}
		sb.WriteString(") ")
		t.Args[0].write(sb, names)
		sb.WriteString(")")
	default:
		sb.WriteString("(")
		sb.WriteString(t.Op)
		for _, a := range t.Args {
			sb.WriteByte(' ')
			a.write(sb, names)
		}
		sb.WriteString(")")
	}
}

// Script renders an SMT-LIB script asserting all of `asserts` with shared
// sub-terms named via define-fun (only those not under a quantifier binder
// that mentions bound variables).
func (b *TermBank) Script(asserts []*Term, extraDecls string, getModel bool) string {
	return b.ScriptWatch(asserts, extraDecls, getModel, nil)
}

// ScriptWatch additionally evaluates the watch terms in the model
// ((get-value ...) on names w!0, w!1, ...).
func (b *TermBank) ScriptWatch(asserts []*Term, extraDecls string, getModel bool, watch []*Term) string {
	// collect reachable terms, reference counts, constants and functions
	refs := map[*Term]int{}
	hasBound := map[*Term]bool{}
	var order []*Term
	consts := map[string]*Sort{}
	funcs := map[string]bool{}
	usorts := map[string]bool{}
	var visit func(t *Term) bool
	noteSort := func(s *Sort) {
		var rec func(s *Sort)
		rec = func(s *Sort) {
			switch s.Kind {
			case SUnint:
				usorts[s.Name] = true
			case SArray:
				rec(s.K)
				rec(s.V)
			}
		}
		rec(s)
	}
	visit = func(t *Term) bool {
		refs[t]++
		if refs[t] > 1 {
			return hasBound[t]
		}
		hb := false
		switch t.Op {
		case "const":
			consts[t.Name] = t.Sort
			noteSort(t.Sort)
		case "bound":
			hb = true
			noteSort(t.Sort)
		case "app":
			funcs[t.Name] = true
		}
		for _, a := range t.Args {
			if visit(a) {
				hb = true
			}
		}
		hasBound[t] = hb
		order = append(order, t) // post-order
		return hb
	}
	for _, a := range asserts {
		visit(a)
	}
	for _, a := range watch {
		visit(a)
	}
	var sb strings.Builder
	sb.WriteString("(set-option :produce-models true)\n(set-logic ALL)\n")
	var us []string
	for f := range funcs {
		d := b.funcs[f]
		for _, s := range d.Args {
			noteSort(s)
		}
		noteSort(d.Ret)
	}
	for s := range usorts {
		us = append(us, s)
	}
	sort.Strings(us)
	for _, s := range us {
		fmt.Fprintf(&sb, "(declare-sort %s 0)\n", s)
	}
	var cs []string
	for c := range consts {
		cs = append(cs, c)
	}
	sort.Strings(cs)
	for _, c := range cs {
		fmt.Fprintf(&sb, "(declare-fun %s () %s)\n", c, consts[c])
	}
	var fs []string
	for f := range funcs {
		fs = append(fs, f)
	}
	sort.Strings(fs)
	for _, f := range fs {
		d := b.funcs[f]
		var as []string
		for _, s := range d.Args {
			as = append(as, s.String())
		}
		fmt.Fprintf(&sb, "(declare-fun %s (%s) %s)\n", f, strings.Join(as, " "), d.Ret)
	}
	sb.WriteString(extraDecls)
	names := map[*Term]string{}
	for _, t := range order {
		if refs[t] > 1 && len(t.Args) > 0 && !hasBound[t] {
			n := fmt.Sprintf("t!%d", t.id)
			fmt.Fprintf(&sb, "(define-fun %s () %s ", n, t.Sort)
			t.write(&sb, names)
			sb.WriteString(")\n")
			names[t] = n
		}
	}
	for _, a := range asserts {
		sb.WriteString("(assert ")
		a.write(&sb, names)
		sb.WriteString(")\n")
	}
	for i, wt := range watch {
		fmt.Fprintf(&sb, "(define-fun w!%d () %s ", i, wt.Sort)
		wt.write(&sb, names)
		sb.WriteString(")\n")
	}
	sb.WriteString("(check-sat)\n")
	if getModel {
		sb.WriteString("(get-model)\n")
	}
	if len(watch) > 0 {
		sb.WriteString("(get-value (")
		for i := range watch {
			fmt.Fprintf(&sb, "w!%d ", i)
		}
		sb.WriteString("))\n")
	}
	return sb.String()
}

// hasBoundVar reports whether t mentions a quantifier-bound variable freely
// (conservatively: anywhere).
func (b *TermBank) hasBoundVar(t *Term) bool {
	if v, ok := b.bvMemo[t]; ok {
		return v
	}
	r := t.Op == "bound"
	if !r {
		for _, a := range t.Args {
			if b.hasBoundVar(a) {
				r = true
				break
			}
		}
	}
	b.bvMemo[t] = r
	return r
}

// freeBound returns the set of bound variables occurring free in t.
func (b *TermBank) freeBound(t *Term) map[*Term]bool {
	if b.fbMemo == nil {
		b.fbMemo = map[*Term]map[*Term]bool{}
	}
	if r, ok := b.fbMemo[t]; ok {
		return r
	}
	var r map[*Term]bool
	if t.Op == "bound" {
		r = map[*Term]bool{t: true}
	} else {
		for _, a := range t.Args {
			fa := b.freeBound(a)
			if len(fa) == 0 {
				continue
			}
			if r == nil {
				r = map[*Term]bool{}
			}
			for k := range fa {
				r[k] = true
			}
		}
		if (t.Op == "forall" || t.Op == "exists") && r != nil {
			nr := map[*Term]bool{}
			for k := range r {
				nr[k] = true
			}
			for _, bv := range t.Bound {
				delete(nr, bv)
			}
			r = nr
		}
	}
	b.fbMemo[t] = r
	return r
}

func (b *TermBank) hasFreeBound(t *Term) bool { return len(b.freeBound(t)) > 0 }

// conjuncts returns the conjunct list of t.
func conjuncts(t *Term) []*Term {
	if t.Op == "and" {
		return t.Args
	}
	if t.IsTrue() {
		return nil
	}
	return []*Term{t}
}

// Relativize strips the conjuncts common to all path conditions: under the
// merged path condition Or(conds...), cond_i is equivalent to what is left.
func (b *TermBank) Relativize(conds []*Term) (common []*Term, rest []*Term) {
	if len(conds) < 2 {
		return nil, conds
	}
	count := map[int]int{}
	for _, c := range conds {
		seen := map[int]bool{}
		for _, k := range conjuncts(c) {
			if !seen[k.id] {
				seen[k.id] = true
				count[k.id]++
			}
		}
	}
	isCommon := func(k *Term) bool { return count[k.id] == len(conds) }
	for _, k := range conjuncts(conds[0]) {
		if isCommon(k) {
			common = append(common, k)
		}
	}
	if len(common) == 0 {
		return nil, conds
	}
	for _, c := range conds {
		var r []*Term
		for _, k := range conjuncts(c) {
			if !isCommon(k) {
				r = append(r, k)
			}
		}
		rest = append(rest, b.And(r...))
	}
	return common, rest
}

// OrFactored is Or with the common conjuncts factored out:
// Or(C&&a, C&&b) = C && Or(a, b); a diamond closes back to C.
func (b *TermBank) OrFactored(conds ...*Term) *Term {
	common, rest := b.Relativize(conds)
	if len(common) == 0 {
		return b.Or(conds...)
	}
	if b.covers(rest, 0) {
		return b.And(common...)
	}
	return b.And(append(append([]*Term{}, common...), b.Or(rest...))...)
}

// covers reports whether the disjunction of the given conjunctions is
// valid, by Shannon expansion on literals that occur (positively or
// negatively) in every disjunct - enough to close if/else-if ladders.
func (b *TermBank) covers(ds []*Term, depth int) bool {
	if len(ds) == 0 || depth > 12 {
		return false
	}
	for _, d := range ds {
		if d.IsTrue() {
			return true
		}
	}
	atom := func(l *Term) (*Term, bool) {
		if l.Op == "not" {
			return l.Args[0], false
		}
		return l, true
	}
	for _, l := range conjuncts(ds[0]) {
		a, _ := atom(l)
		var pos, neg []*Term
		ok := true
		for _, d := range ds {
			var rest []*Term
			found := 0
			for _, k := range conjuncts(d) {
				ka, kp := atom(k)
				if ka == a {
					if kp {
						found = 1
					} else {
						found = -1
					}
					continue
				}
				rest = append(rest, k)
			}
			switch found {
			case 1:
				pos = append(pos, b.And(rest...))
			case -1:
				neg = append(neg, b.And(rest...))
			default:
				ok = false
			}
			if !ok {
				break
			}
		}
		if ok && len(pos) > 0 && len(neg) > 0 && b.covers(pos, depth+1) && b.covers(neg, depth+1) {
			return true
		}
	}
	return false
}

// Index builds the absolute element index off+idx in a trigger-friendly
// normal form (+ root rest): root is the slice's own base offset (the first
// non-literal summand of off), rest everything else. A quantified fact
// "forall k: a[root + k] ..." then E-matches an access a[root + (d + i)] made
// through a sub-slice, which a flattened sum (+ root d i) does not.
func (b *TermBank) Index(off, idx *Term) *Term {
	if off.IsLit() || idx.IsLit() && idx.Val.Sign() == 0 {
		return b.Add(off, idx)
	}
	root := off
	var restArgs []*Term
	if off.Op == "+" {
		root = nil
		for _, a := range off.Args {
			if root == nil && !a.IsLit() {
				root = a
				continue
			}
			restArgs = append(restArgs, a)
		}
		if root == nil {
			return b.Add(off, idx)
		}
	}
	rest := b.Add(append(restArgs, idx)...)
	if rest.IsLit() && rest.Val.Sign() == 0 {
		return root
	}
	return b.intern(&Term{Op: "+", Args: []*Term{root, rest}, Sort: IntSort})
}
