#!/bin/sh
# debugging helper: run every root of a property with `govc func` and summarise failures
prop=${1:-C08}
python3 - "$prop" <<'PY' > /var/tmp/roots.$$ 
import json,sys
for c in json.load(open('/verif/contracts/checks.json')):
    if c['property']==sys.argv[1]:
        for r in c['roots']: print(r['func']+'\t'+','.join(r['modes']))
PY
cat /var/tmp/roots.$$ | tr '\t' '\n' | xargs -d '\n' -n 2 -P 8 sh -c '/verif/bin/govc func "$0" --mode "$1" --prop '"$prop"' 2>&1 | grep -E "ERROR|failed|unknown |discharged" | sed "s|^|[$0] |"' 
rm -f /var/tmp/roots.$$
